//! C06: cipher negotiation on real PeerCrypto<NodeInfo> pairs with prescribed speeds.
//!
//! `negotiate run <quick|thorough> <trace.ndjson>`, `negotiate replay <events.ndjson> <trace.ndjson>`
//!   nego events: one real handshake (ping, pong, peng, first sealed datagram) per
//!       pair of advertised SETS (cipher, speed) + plain flags (+ f32 grid the spec speeds are mapped with) = one
//!       *group* `g`, x orderings of the two lists x initiator A / B; an `end` event closes the group;
//!   edit events: every single-field edit of the cipher list inside a genuine ping / pong (the datagram is signed:
//!       the receiver must refuse it), for one speed assignment of every configurable pair of sets.
//! A node cannot be configured with an empty advertised set (an empty configuration list means "the three default
//! ciphers" to the code), so the empty list appears only together with the plain flag (list ["PLAIN"]).
use super::conn::*;
use super::hs::{ctx_with, fresh_keypair, KeyCfg};
use super::util::*;
use crate::config::CryptoConfig;
use crate::crypto::{Crypto, MessageResult, PeerCrypto};
use crate::error::Error;
use crate::messages::NodeInfo;
use crate::util::MsgBuffer;
use rand::Rng;
use serde_json::{json, Value};
use std::collections::HashMap;

type List = Vec<(u64, u64)>; // (cipher wire id 1..3, spec speed 0|1|2|9)

#[derive(Clone, PartialEq, Eq, Hash, Debug)]
struct Cfg {
    list: List,
    plain: bool,
    grid: usize,
}

/// spec speeds 0, 1, 2, 9 as measurable f32 values (finite, non-negative), order preserving.  Grid 0 is
/// `hs::SPEED_GRID` (via `ctx_with`); grid 1 separates the middle values by less than one MiB/s (measured speeds
/// are fractional); grid 2 uses tiny values and the largest finite f32.
const GRIDS: [[f32; 4]; 3] = [super::hs::SPEED_GRID, [0.0, 600.25, 600.75, 3.0e38], [0.0, 1.0e-3, 2.0e-3, f32::MAX]];
const NAMES: [&str; 4] = ["PLAIN", "AES128", "AES256", "CHACHA20"];

fn grid_index(spec: u64) -> usize {
    match spec {
        0 => 0,
        1 => 1,
        2 => 2,
        _ => 3,
    }
}

fn ctx_grid(id: u8, key: &KeyCfg, c: &Cfg) -> Crypto {
    if c.grid == 0 {
        return ctx_with(id, key, &[], &c.list, c.plain);
    }
    let mut speeds = [0.0f32; 3];
    let mut algos: Vec<String> = vec![];
    if c.plain {
        algos.push("PLAIN".into());
    }
    for (ci, s) in &c.list {
        speeds[*ci as usize - 1] = GRIDS[c.grid][grid_index(*s)];
        algos.push(NAMES[*ci as usize].to_string());
    }
    assert!(!algos.is_empty(), "empty algorithm list");
    set_speeds(speeds);
    let cfg = match key {
        KeyCfg::Password(p) => CryptoConfig { password: Some(p.clone()), algorithms: algos, ..Default::default() },
        KeyCfg::Pair(pr, pb) => CryptoConfig { private_key: Some(pr.clone()), public_key: Some(pb.clone()), algorithms: algos, ..Default::default() },
    };
    Crypto::new([id; 16], &cfg).expect("crypto context")
}

fn id_of(name: &str) -> u64 {
    match name {
        "PLAIN" => 0,
        "AES128" => 1,
        "AES256" => 2,
        "CHACHA20" => 3,
        _ => 98,
    }
}

fn jl(l: &List) -> Value {
    Value::Array(l.iter().map(|(c, s)| json!([c, s])).collect())
}

/// contexts are built once per advertised list (the speeds are read when the context is created)
struct Ctxs {
    key: KeyCfg,
    cache: [HashMap<Cfg, Crypto>; 2],
}

impl Ctxs {
    fn new(key: KeyCfg) -> Self {
        Ctxs { key, cache: [HashMap::new(), HashMap::new()] }
    }
    fn ensure(&mut self, side: usize, c: &Cfg) {
        if !self.cache[side].contains_key(c) {
            let ctx = ctx_grid(side as u8 + 1, &self.key, c);
            self.cache[side].insert(c.clone(), ctx);
        }
    }
    fn pair(&mut self, a: &Cfg, b: &Cfg) -> [&Crypto; 2] {
        self.ensure(0, a);
        self.ensure(1, b);
        [&self.cache[0][a], &self.cache[1][b]]
    }
}

struct HsResult {
    /// unsealed data messages accepted by an end that had not completed the handshake / after completion at end A, B
    plain_early: u64,
    plain_after: [&'static str; 2],
    x: u64,
    y: u64,
    res: &'static str,
    probe: &'static str,
    dgrams: usize,
    why: String,
}

enum Fed {
    Panic(String),
    Err(bool, String), // fatal?, text
    Reply(Vec<u8>),
    Done(Vec<u8>),
    Other,
}

fn feed_guarded(pc: &mut PeerCrypto<NodeInfo>, bytes: &[u8]) -> Fed {
    match guarded(|| feed(pc, bytes)) {
        Err(p) => Fed::Panic(p),
        Ok(o) => match o.res {
            Err(Error::CryptoInitFatal(m)) => Fed::Err(true, m.to_string()),
            Err(e) => Fed::Err(false, format!("{}", e)),
            Ok(MessageResult::Reply) => Fed::Reply(o.out),
            Ok(MessageResult::Initialized(_)) | Ok(MessageResult::InitializedWithReply(_)) => Fed::Done(o.out),
            Ok(_) => Fed::Other,
        },
    }
}

/// One real handshake over a loss-free network: `init` (0 = A, 1 = B) sends the ping.
/// an unsealed data message (type byte 0 + payload) offered to an end: accepted as payload?
fn plain_probe(pc: &mut PeerCrypto<NodeInfo>) -> bool {
    let payload = [0x45u8, 0, 0, 20, 1, 2, 3, 4, 5, 6, 7, 8, 9, 10, 11, 12, 13, 14, 15, 16];
    let mut d = vec![0u8];
    d.extend_from_slice(&payload);
    open_data(pc, &d).map(|p| p == payload).unwrap_or(false)
}

fn handshake(ctx: [&Crypto; 2], init: usize) -> HsResult {
    let mut ends = [ctx[0].peer_instance(node_info(1)), ctx[1].peer_instance(node_info(2))];
    let mut done = [false; 2];
    let mut plain_early = 0u64;
    for e in ends.iter_mut() {
        if plain_probe(e) {
            plain_early += 1;
        }
    }
    let mut why = String::new();
    let mut panicked = false;
    let mut dgrams = 0;
    let mut m = MsgBuffer::new(100);
    let mut queue: std::collections::VecDeque<(usize, Vec<u8>)> = Default::default();
    match guarded(|| ends[init].initialize(&mut m)) {
        Ok(Ok(())) => queue.push_back((1 - init, m.message().to_vec())),
        Ok(Err(e)) => why = format!("initialize: {}", e),
        Err(p) => {
            panicked = true;
            why = p
        }
    }
    while let Some((to, bytes)) = queue.pop_front() {
        dgrams += 1;
        if dgrams > 12 {
            why = "handshake does not terminate".into();
            break;
        }
        // "unencrypted only if both enabled it": an end that has not completed never takes an unsealed message
        for i in 0..2 {
            if !done[i] && plain_probe(&mut ends[i]) {
                plain_early += 1;
            }
        }
        match feed_guarded(&mut ends[to], &bytes) {
            Fed::Panic(p) => {
                panicked = true;
                why = p;
                break;
            }
            Fed::Err(_, e) => {
                if why.is_empty() {
                    why = e
                }
            }
            Fed::Reply(out) => {
                if !out.is_empty() {
                    queue.push_back((1 - to, out))
                }
            }
            Fed::Done(out) => {
                done[to] = true;
                if !out.is_empty() {
                    queue.push_back((1 - to, out))
                }
            }
            Fed::Other => {}
        }
    }
    let mut plain_after = ["na"; 2];
    for i in 0..2 {
        if done[i] {
            plain_after[i] = if plain_probe(&mut ends[i]) { "acc" } else { "rej" };
        } else if plain_probe(&mut ends[i]) {
            plain_early += 1;
        }
    }
    let sel = |i: usize, e: &PeerCrypto<NodeInfo>| if done[i] { id_of(e.algorithm_name()) } else { 99 };
    let (x, y) = (sel(0, &ends[0]), sel(1, &ends[1]));
    let mut probe = "na";
    if done[0] && done[1] && !panicked {
        probe = "ok";
        for i in 0..2 {
            let payload = [0x60u8, i as u8, 3, 4, 5, 6, 7, 8, 9, 10, 11, 12, 13, 14, 15, 16, 17, 18, 19, 20, 21, 22, 23, 24];
            let (p, q) = ends.split_at_mut(1);
            let (from, to) = if i == 0 { (&mut p[0], &mut q[0]) } else { (&mut q[0], &mut p[0]) };
            let ok = guarded(|| {
                let d = seal_data(from, &payload);
                open_data(to, &d).map(|p| p == payload).unwrap_or(false)
            })
            .unwrap_or(false);
            if !ok {
                probe = "bad";
            }
        }
    }
    let res = if panicked {
        "panic"
    } else if done[0] && done[1] {
        "ok"
    } else if !done[0] && !done[1] {
        "fail"
    } else {
        "half"
    };
    HsResult { plain_early, plain_after, x, y, res, probe, dgrams, why }
}

// ------------------------------------------------------------------------------------------- enumeration

fn perms(l: &List) -> Vec<List> {
    if l.len() <= 1 {
        return vec![l.clone()];
    }
    let mut res = vec![];
    for i in 0..l.len() {
        let mut rest = l.clone();
        let x = rest.remove(i);
        for mut p in perms(&rest) {
            p.insert(0, x);
            res.push(p);
        }
    }
    res
}

fn subsets() -> Vec<Vec<u64>> {
    (0..8u64).map(|m| (1..=3u64).filter(|c| m & (1 << (c - 1)) != 0).collect()).collect()
}

fn assignments(ciphers: &[u64], grid: &[u64]) -> Vec<List> {
    let mut res: Vec<List> = vec![vec![]];
    for c in ciphers {
        let mut next = vec![];
        for r in &res {
            for s in grid {
                let mut r2 = r.clone();
                r2.push((*c, *s));
                next.push(r2);
            }
        }
        res = next;
    }
    res
}

/// a group: the two advertised sets (lists in ascending cipher order) with speeds and flags
#[derive(Clone)]
struct Group {
    a: Cfg,
    b: Cfg,
}

fn configurable(c: &Cfg) -> bool {
    c.plain || !c.list.is_empty()
}

fn groups(tier: &str) -> Vec<Group> {
    let mut res = vec![];
    let mut r = rng(61);
    let full = [0u64, 1, 2, 9];
    for ca in subsets() {
        for cb in subsets() {
            for ap in [false, true] {
                for bp in [false, true] {
                    if (ca.is_empty() && !ap) || (cb.is_empty() && !bp) {
                        continue; // not configurable (see module comment)
                    }
                    let mut pairs: Vec<(List, List)> = vec![];
                    if tier == "thorough" {
                        for sa in assignments(&ca, &full) {
                            for sb in assignments(&cb, &full) {
                                pairs.push((sa.clone(), sb));
                            }
                        }
                    } else {
                        // tie-heavy: every assignment over {1, 2}, all-zero, all-large, and seeded draws from the full grid
                        for sa in assignments(&ca, &[1, 2]) {
                            for sb in assignments(&cb, &[1, 2]) {
                                pairs.push((sa.clone(), sb));
                            }
                        }
                        for v in [0u64, 9] {
                            pairs.push((ca.iter().map(|c| (*c, v)).collect(), cb.iter().map(|c| (*c, v)).collect()));
                        }
                        for _ in 0..8 {
                            pairs.push((
                                ca.iter().map(|c| (*c, full[r.gen_range(0..4)])).collect(),
                                cb.iter().map(|c| (*c, full[r.gen_range(0..4)])).collect(),
                            ));
                        }
                        pairs.sort();
                        pairs.dedup();
                    }
                    for (sa, sb) in pairs {
                        // quick: every group under grids 0 and 1; thorough: the grids take turns
                        let grids: Vec<usize> = if tier == "thorough" { vec![res.len() % 3] } else { vec![0, 1] };
                        for grid in grids {
                            res.push(Group { a: Cfg { list: sa.clone(), plain: ap, grid }, b: Cfg { list: sb.clone(), plain: bp, grid } });
                        }
                    }
                }
            }
        }
    }
    res
}

/// pairs of orderings exercised for one group
fn orderings(g: &Group, tier: &str) -> Vec<(List, List)> {
    let (pa, pb) = (perms(&g.a.list), perms(&g.b.list));
    let mut res = vec![];
    if tier == "thorough" {
        for x in &pa {
            for y in &pb {
                res.push((x.clone(), y.clone()));
            }
        }
    } else {
        // two orderings of each list (ascending and descending cipher id) in all four combinations, plus two rotations
        let (fa, la, fb, lb) = (&pa[0], &pa[pa.len() - 1], &pb[0], &pb[pb.len() - 1]);
        for (x, y) in [(fa, fb), (fa, lb), (la, fb), (la, lb), (&pa[pa.len() / 2], &pb[(pb.len() + 1) / 3]), (&pa[pa.len() / 3], &pb[pb.len() / 2])] {
            if !res.contains(&(x.clone(), y.clone())) {
                res.push((x.clone(), y.clone()));
            }
        }
    }
    res
}

// ------------------------------------------------------------------------------------------- edits

/// (offset of the length field of the algorithms part, entries) of a handshake datagram: 0xff, salt(4), key hash(4), parts
pub fn algo_part(d: &[u8]) -> Option<(usize, Vec<[u8; 5]>)> {
    let mut p = 9;
    while p < d.len() {
        let t = d[p];
        if t == 0 {
            return None;
        }
        let len = ((d[p + 1] as usize) << 8) | d[p + 2] as usize;
        if t == 4 {
            let mut es = vec![];
            for k in 0..len / 5 {
                let mut e = [0u8; 5];
                e.copy_from_slice(&d[p + 3 + 5 * k..p + 8 + 5 * k]);
                es.push(e);
            }
            return Some((p + 1, es));
        }
        p += 3 + len;
    }
    None
}

pub fn rebuild(d: &[u8], len_off: usize, old_n: usize, es: &[[u8; 5]]) -> Vec<u8> {
    let mut out = d[..len_off].to_vec();
    let len = es.len() * 5;
    out.push((len >> 8) as u8);
    out.push(len as u8);
    for e in es {
        out.extend_from_slice(e);
    }
    out.extend_from_slice(&d[len_off + 2 + old_n * 5..]);
    out
}

pub fn entry(c: u8, speed: f32) -> [u8; 5] {
    let b = speed.to_be_bytes();
    [c, b[0], b[1], b[2], b[3]]
}

/// every single-field edit of the cipher list of a genuine datagram: (kind, i, v, edited datagram)
fn edits(d: &[u8]) -> Vec<(&'static str, usize, i64, Vec<u8>)> {
    let (off, es) = match algo_part(d) {
        Some(x) => x,
        None => return vec![],
    };
    let n = es.len();
    let mut res = vec![];
    for i in 0..n {
        for j in i + 1..n {
            let mut e2 = es.clone();
            e2.swap(i, j);
            res.push(("swap", i, j as i64, rebuild(d, off, n, &e2)));
        }
    }
    for i in 0..n {
        for (vi, v) in [0.0f32, 1.5, 600.0, 3.0e38, f32::INFINITY, 599.99994].iter().enumerate() {
            let ne = entry(es[i][0], *v);
            if ne != es[i] {
                let mut e2 = es.clone();
                e2[i] = ne;
                res.push(("speed", i, vi as i64, rebuild(d, off, n, &e2)));
            }
        }
        for c in [0u8, 1, 2, 3, 7] {
            if c != es[i][0] {
                let mut e2 = es.clone();
                e2[i][0] = c;
                res.push(("cipher", i, c as i64, rebuild(d, off, n, &e2)));
            }
        }
        let mut e2 = es.clone();
        e2.remove(i);
        res.push(("drop", i, 0, rebuild(d, off, n, &e2)));
    }
    if !es.iter().any(|e| e[0] == 0) {
        let mut e2 = es.clone();
        e2.insert(0, entry(0, f32::INFINITY));
        res.push(("addplain", 0, 0, rebuild(d, off, n, &e2)));
        let mut e3 = es.clone();
        e3.push(entry(0, f32::INFINITY));
        res.push(("addplain", n, 0, rebuild(d, off, n, &e3)));
    }
    for c in 1u8..=3 {
        if !es.iter().any(|e| e[0] == c) {
            let mut e2 = es.clone();
            e2.push(entry(c, 3.0e38));
            res.push(("add", n, c as i64, rebuild(d, off, n, &e2)));
        }
    }
    res
}

struct EditStats {
    edits: u64,
    controls_failed: u64,
}

/// edits of the ping (presented to a fresh responder) and of the pong (presented to the initiator that sent the ping)
fn edit_family(ctx: [&Crypto; 2], g: u64, a: &Cfg, b: &Cfg, t: &mut Vec<Value>, st: &mut EditStats) {
    let fresh_ping = |ends: &mut [PeerCrypto<NodeInfo>; 2]| -> Vec<u8> {
        let mut m = MsgBuffer::new(100);
        ends[0].initialize(&mut m).expect("ping");
        m.message().to_vec()
    };
    let mk = || [ctx[0].peer_instance(node_info(1)), ctx[1].peer_instance(node_info(2))];
    let mut log = |msg: &str, kind: &str, i: usize, v: i64, f: Fed, t: &mut Vec<Value>| {
        let (res, sent, done) = match &f {
            Fed::Panic(_) => ("panic", false, false),
            Fed::Err(true, _) => ("fatal", false, false),
            Fed::Err(false, _) => ("err", false, false),
            Fed::Reply(o) => ("reply", !o.is_empty(), false),
            Fed::Done(o) => ("done", !o.is_empty(), true),
            Fed::Other => ("other", false, false),
        };
        let accepted = !(res == "err" || res == "fatal") || sent || done;
        t.push(json!({"op":"edit","g":g,"grid":a.grid,"msg":msg,"kind":kind,"i":i,"v":v,"a":jl(&a.list),"ap":a.plain,"b":jl(&b.list),"bp":b.plain,
                      "res":res,"sent":sent,"done":done,"accepted":accepted}));
    };
    // control: the unedited datagrams are accepted
    let mut ends = mk();
    let ping = fresh_ping(&mut ends);
    let pong = match feed_guarded(&mut ends[1], &ping) {
        Fed::Reply(o) if !o.is_empty() => o,
        _ => {
            st.controls_failed += 1;
            return;
        }
    };
    if !matches!(feed_guarded(&mut ends[0], &pong), Fed::Done(_)) {
        st.controls_failed += 1;
        return;
    }
    for (kind, i, v, ed) in edits(&ping) {
        let mut ends = mk();
        let f = feed_guarded(&mut ends[1], &ed);
        st.edits += 1;
        log("ping", kind, i, v, f, t);
    }
    let n_pong = edits(&pong).len();
    for k in 0..n_pong {
        // the edit is applied to the pong of a fresh exchange, presented to the initiator that is waiting for it
        let mut ends = mk();
        let ping = fresh_ping(&mut ends);
        let pong = match feed_guarded(&mut ends[1], &ping) {
            Fed::Reply(o) => o,
            _ => {
                st.controls_failed += 1;
                continue;
            }
        };
        let es = edits(&pong);
        if es.len() != n_pong {
            st.controls_failed += 1;
            continue;
        }
        let (kind, i, v, ed) = es.into_iter().nth(k).unwrap();
        let f = feed_guarded(&mut ends[0], &ed);
        st.edits += 1;
        log("pong", kind, i, v, f, t);
    }
}

/// A peer of a later version: its genuine ping additionally advertises ciphers this version does not know (ids 9 and
/// 200, in front and behind), signed with its (trusted) key.  Unknown entries are skipped: the outcome is the one of the
/// known entries, an unknown id never stands for "unencrypted", and nothing unsealed leaves the responder unless both
/// ends enabled plain.
fn future_family(ctx: [&Crypto; 2], g: u64, a: &Cfg, b: &Cfg, key: &KeyCfg, t: &mut Vec<Value>) {
    use ring::signature::Ed25519KeyPair;
    let seed = match key {
        KeyCfg::Pair(pr, _) => {
            let mut raw = crate::util::from_base62(pr).unwrap_or_default();
            while raw.len() < 32 {
                raw.insert(0, 0);
            }
            raw
        }
        _ => return,
    };
    let kp = match Ed25519KeyPair::from_seed_unchecked(&seed) {
        Ok(k) => k,
        Err(_) => return,
    };
    for (variant, unknown) in [("front", vec![(0usize, 9u8)]), ("back", vec![(usize::MAX, 200u8)]), ("both", vec![(0, 9), (usize::MAX, 77)])] {
        let mut ends = [ctx[0].peer_instance(node_info(1)), ctx[1].peer_instance(node_info(2))];
        let mut m = MsgBuffer::new(100);
        if ends[0].initialize(&mut m).is_err() {
            continue;
        }
        let ping = m.message().to_vec();
        let (off, mut es) = match algo_part(&ping) {
            Some(x) => x,
            None => continue,
        };
        let n = es.len();
        for (pos, id) in &unknown {
            let e = entry(*id, 777.0);
            if *pos == 0 {
                es.insert(0, e)
            } else {
                es.push(e)
            }
        }
        let mut d = rebuild(&ping, off, n, &es);
        // sign again: everything between the marker byte and the signature length byte
        let l = d.len();
        if l < 70 || d[l - 65] != 64 {
            continue;
        }
        let sig = kp.sign(&d[1..l - 65]);
        d[l - 64..].copy_from_slice(sig.as_ref());
        let mut wire: Vec<Vec<u8>> = vec![];
        let mut done = [false; 2];
        let mut res = "ok";
        let mut queue: std::collections::VecDeque<(usize, Vec<u8>)> = Default::default();
        queue.push_back((1, d));
        let mut steps = 0;
        while let Some((to, bytes)) = queue.pop_front() {
            steps += 1;
            if steps > 12 {
                break;
            }
            if steps > 1 {
                wire.push(bytes.clone());
            }
            match feed_guarded(&mut ends[to], &bytes) {
                Fed::Panic(_) => {
                    res = "panic";
                    break;
                }
                Fed::Err(_, _) => {}
                Fed::Reply(o) => {
                    if !o.is_empty() {
                        queue.push_back((1 - to, o))
                    }
                }
                Fed::Done(o) => {
                    done[to] = true;
                    if !o.is_empty() {
                        queue.push_back((1 - to, o))
                    }
                }
                Fed::Other => {}
            }
        }
        let sel = |i: usize, e: &PeerCrypto<NodeInfo>| if done[i] { id_of(e.algorithm_name()) } else { 99 };
        let (x, y) = (sel(0, &ends[0]), sel(1, &ends[1]));
        // the responder's node information (16 bytes of node id 2...) must not travel unsealed
        let needle = [2u8; 12];
        let clear = wire.iter().any(|w| w.windows(12).any(|q| q == needle));
        t.push(json!({"op":"future","g":g,"grid":a.grid,"variant":variant,"a":jl(&a.list),"ap":a.plain,"b":jl(&b.list),"bp":b.plain,
                      "x":x,"y":y,"res":res,"clear":clear,"datagrams":wire.len()}));
    }
}

// ------------------------------------------------------------------------------------------- driver

fn nego_event(gid: u64, ca: &Cfg, cb: &Cfg, init: usize, r: &HsResult) -> Value {
    json!({"op":"nego","g":gid,"grid":ca.grid,"a":jl(&ca.list),"ap":ca.plain,"b":jl(&cb.list),"bp":cb.plain,
           "init":if init == 0 {"A"} else {"B"},"x":r.x,"y":r.y,"res":r.res,"probe":r.probe,"dgrams":r.dgrams,"why":r.why,
           "plain_early":r.plain_early,"plain_after":r.plain_after})
}

fn list_of(v: &Value) -> List {
    v.as_array().unwrap().iter().map(|e| (e[0].as_u64().unwrap(), e[1].as_u64().unwrap())).collect()
}

/// `negotiate replay <events.ndjson> <trace.ndjson>`: runs recorded nego events again (an edit event: the whole edit
/// family of its configuration) on the current code.
fn replay(in_path: &str, out_path: &str) -> Value {
    let (pr, pb) = fresh_keypair();
    let mut ctxs = Ctxs::new(KeyCfg::Pair(pr, pb));
    let mut t = Trace::create(out_path);
    let mut st = EditStats { edits: 0, controls_failed: 0 };
    let mut n = 0u64;
    for e in read_ndjson(in_path) {
        let grid = e["grid"].as_u64().unwrap_or(0) as usize;
        let ca = Cfg { list: list_of(&e["a"]), plain: e["ap"].as_bool().unwrap(), grid };
        let cb = Cfg { list: list_of(&e["b"]), plain: e["bp"].as_bool().unwrap(), grid };
        let gid = e["g"].as_u64().unwrap_or(1);
        n += 1;
        match e["op"].as_str().unwrap_or("") {
            "nego" => {
                let init = if e["init"] == "B" { 1 } else { 0 };
                let ctx = ctxs.pair(&ca, &cb);
                let r = handshake(ctx, init);
                t.ev(nego_event(gid, &ca, &cb, init, &r));
            }
            "edit" => {
                let mut evs = vec![];
                let ctx = ctxs.pair(&ca, &cb);
                edit_family(ctx, gid, &ca, &cb, &mut evs, &mut st);
                for x in evs {
                    t.ev(x);
                }
            }
            _ => {}
        }
    }
    let events = t.finish();
    json!({"runs": n, "steps": n, "events": events, "controls_failed": st.controls_failed})
}

pub fn run(args: &[String]) -> Value {
    let a = |i: usize| args.get(i).map(|s| s.as_str()).unwrap_or("");
    match a(0) {
        "run" => run_all(a(1), a(2)),
        "replay" => replay(a(1), a(2)),
        _ => panic!("usage: negotiate run <quick|thorough> <trace.ndjson> | negotiate replay <events.ndjson> <trace.ndjson>"),
    }
}

fn run_all(tier: &str, out_path: &str) -> Value {
    let gs = std::sync::Arc::new(groups(tier));
    let threads: usize = std::env::var("VERIF_THREADS").ok().and_then(|s| s.parse().ok()).unwrap_or(if tier == "thorough" { 12 } else { 8 });
    let (pr, pb) = fresh_keypair();
    let key = KeyCfg::Pair(pr, pb);
    // edits: the first speed assignment of every pair of sets; in thorough every 16th group in addition
    let mut seen_sets: std::collections::HashSet<(Vec<u64>, bool, Vec<u64>, bool)> = Default::default();
    let with_edits: Vec<bool> = gs
        .iter()
        .enumerate()
        .map(|(gi, g)| {
            let sets = (g.a.list.iter().map(|e| e.0).collect::<Vec<_>>(), g.a.plain, g.b.list.iter().map(|e| e.0).collect::<Vec<_>>(), g.b.plain);
            seen_sets.insert(sets) || (tier == "thorough" && (gi + 1) % 16 == 0)
        })
        .collect();
    let with_edits = std::sync::Arc::new(with_edits);
    let next = std::sync::Arc::new(std::sync::atomic::AtomicUsize::new(0));
    const BLOCK: usize = 8;
    let mut handles = vec![];
    for ti in 0..threads {
        let (gs, with_edits, next) = (gs.clone(), with_edits.clone(), next.clone());
        let key = key.clone();
        let tier = tier.to_string();
        let piece = format!("{}.part{}", out_path, ti);
        handles.push(std::thread::Builder::new().stack_size(16 << 20).spawn(move || {
            let mut ctxs = Ctxs::new(key.clone());
            let mut t = Trace::create(&piece);
            let mut st = EditStats { edits: 0, controls_failed: 0 };
            let (mut hs, mut completed, mut failed) = (0u64, 0u64, 0u64);
            loop {
                let from = next.fetch_add(BLOCK, std::sync::atomic::Ordering::SeqCst);
                if from >= gs.len() {
                    break;
                }
                for gi in from..(from + BLOCK).min(gs.len()) {
                    let g = &gs[gi];
                    let gid = (gi + 1) as u64;
                    let mut any_ok = false;
                    for (la, lb) in orderings(g, &tier) {
                        let (ca, cb) = (Cfg { list: la, plain: g.a.plain, grid: g.a.grid }, Cfg { list: lb, plain: g.b.plain, grid: g.b.grid });
                        for init in 0..2 {
                            let ctx = ctxs.pair(&ca, &cb);
                            let r = handshake(ctx, init);
                            hs += 1;
                            match r.res {
                                "ok" => {
                                    completed += 1;
                                    any_ok = true
                                }
                                "fail" => failed += 1,
                                _ => {}
                            }
                            t.ev(nego_event(gid, &ca, &cb, init, &r));
                        }
                    }
                    if any_ok && with_edits[gi] {
                        let mut evs = vec![];
                        let ctx = ctxs.pair(&g.a, &g.b);
                        edit_family(ctx, gid, &g.a, &g.b, &mut evs, &mut st);
                        for e in evs {
                            t.ev(e);
                        }
                    }
                    if with_edits[gi] {
                        let mut evs = vec![];
                        let ctx = ctxs.pair(&g.a, &g.b);
                        future_family(ctx, gid, &g.a, &g.b, &key, &mut evs);
                        for e in evs {
                            t.ev(e);
                        }
                    }
                    t.ev(json!({"op":"end","g":gid}));
                }
            }
            let events = t.finish();
            (events, hs, completed, failed, st.edits, st.controls_failed)
        }).unwrap());
    }
    let mut tot = (0usize, 0u64, 0u64, 0u64, 0u64, 0u64);
    let n = handles.len();
    for h in handles {
        let r = h.join().expect("negotiation worker");
        tot = (tot.0 + r.0, tot.1 + r.1, tot.2 + r.2, tot.3 + r.3, tot.4 + r.4, tot.5 + r.5);
    }
    // concatenate the pieces (groups stay contiguous; their order is irrelevant)
    {
        use std::io::Write;
        let mut w = std::io::BufWriter::new(std::fs::File::create(out_path).expect("trace"));
        for ti in 0..n {
            let piece = format!("{}.part{}", out_path, ti);
            let mut f = std::fs::File::open(&piece).expect("piece");
            std::io::copy(&mut f, &mut w).expect("copy");
            std::fs::remove_file(&piece).ok();
        }
        w.flush().unwrap();
    }
    json!({"runs": gs.len(), "steps": tot.1 + tot.4, "events": tot.0, "handshakes": tot.1, "completed": tot.2, "failed": tot.3,
           "edits": tot.4, "controls_failed": tot.5, "threads": n})
}
