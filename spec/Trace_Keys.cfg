SPECIFICATION TraceSpec
CONSTANTS KeyWidth = 32
          Roles = {"priv", "privpub", "trusted", "sharedown"}
          Padded = TRUE
          Nodes = {1}
          Passwords <- TracePasswords
          KeyOf <- TraceKeyOf
INVARIANT TypeOK
POSTCONDITION Accepted
CHECK_DEADLOCK FALSE
