//! Verification harness for vpncloud: drivers that execute schedules / input families on the real code and record
//! ndjson traces that TLC validates against the specifications in /verif/spec.
pub mod util;
mod window;
pub mod conn;
mod rot;
mod nonce;
pub mod hs;
pub mod node;
mod nc09;
mod nodefam;
mod nfwd;
mod nc15;
mod nmesh;
mod nc12;
mod nc03;
mod nc05;
mod ncloud;
mod codec;
mod beacon;
mod keys;
mod dissect;
mod cfgmerge;
mod negotiate;
mod envelope;
mod table;

use std::os::raw::{c_char, c_int};
use std::panic::{catch_unwind, AssertUnwindSafe};

fn dispatch(args: &[String]) -> i32 {
    let a = |i: usize| args.get(i).map(|s| s.as_str()).unwrap_or("");
    let n = |i: usize| a(i).parse::<u64>().expect("numeric argument");
    let summary = match (a(1), a(2)) {
        ("ping", _) => serde_json::json!({"pong": true}),
        ("window", "sched") => window::run_sched(a(3), a(4)),
        ("window", "random") => window::run_random(n(3), n(4), a(5)),
        ("window", "session") => window::run_session(n(3), n(4), a(5)),
        ("rot", "sched") => rot::run_sched(a(3), a(4), a(5) == "each"),
        ("rot", "random") => rot::run_random(n(3), n(4) as i64, a(5)),
        ("nonce", "families") => nonce::families(a(3)),
        ("nonce", "life") => nonce::life(n(3), n(4), a(5)),
        ("hs", "sched") => hs::run_sched(a(3), a(4), a(5), a(6)),
        ("hs", "random") => hs::run_random(n(3), n(4), a(5), a(6), a(7)),
        ("node", "c09") => nc09::run(a(3), a(4)),
        ("node", "fwdsched") => nfwd::run_sched(a(3), a(4), a(5)),
        ("node", "fwdrandom") => nfwd::run_random(n(3), n(4), a(5), a(6), n(7) as usize),
        ("node", "mesh") => nmesh::run(a(3), a(4), a(5)),
        ("node", "c03") => nc03::run(a(3), a(4)),
        ("node", "c05") => nc05::run(a(3), a(4)),
        ("node", "cloud") => ncloud::run(a(3), a(4), a(5).parse().unwrap_or(0), a(6).parse().unwrap_or(0), a(7)),
        ("node", "c12") => nc12::run(a(3), a(4)),
        ("node", "c15") => nc15::run(a(3), a(4)),
        ("node", "vlan") => nfwd::run_vlan(a(3)),
        ("node", "fam") => nodefam::run_fam(a(3), a(4), a(5)),
        ("node", "trust") => nodefam::run_trust(a(3), a(4)),
        ("codec", _) => codec::run(&args[2..]),
        ("beacon", _) => beacon::run(&args[2..]),
        ("keys", _) => keys::run(&args[2..]),
        ("dissect", _) => dissect::run(&args[2..]),
        ("cfgmerge", _) => cfgmerge::run(&args[2..]),
        ("negotiate", _) => negotiate::run(&args[2..]),
        ("envelope", _) => envelope::run(&args[2..]),
        ("table", _) => table::run(&args[2..]),
        _ => {
            eprintln!("usage: vpnharness <driver> <mode> ...");
            return 2;
        }
    };
    println!("{}", summary);
    0
}

#[no_mangle]
pub extern "C" fn main(_argc: c_int, _argv: *const *const c_char) -> c_int {
    let args: Vec<String> = std::env::args().collect();
    // panics of the code under test are caught where they are data; keep the default hook quiet
    if std::env::var("VERIF_PANIC_TRACE").is_err() {
        std::panic::set_hook(Box::new(|_| {}));
    }
    match catch_unwind(AssertUnwindSafe(|| dispatch(&args))) {
        Ok(c) => c,
        Err(_) => {
            eprintln!("harness driver panicked (tool error)");
            2
        }
    }
}
