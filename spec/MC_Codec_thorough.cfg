SPECIFICATION Spec
CONSTANTS FamCounts = {0, 1, 7, 8, 9}
          FamCounts2 = {0, 8}
          OwnCounts = {0, 1, 7, 8, 9}
          PeerNums = {0, 1, 2}
          ClaimNums = {0, 1, 2}
          MaxSeqNI = 5
          MaxSeqIM = 5
          MaxSeqRot = 8
          MaxKey = 3
INVARIANT CaseOK
CHECK_DEADLOCK FALSE
