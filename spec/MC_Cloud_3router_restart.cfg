SPECIFICATION Spec
CONSTANTS DataPlane = "router"
          N = 3
          MaxTime = 8
          Silent = 2
          FaultKind = "restart"
          DialKind = "reconnect"
          MAX_RETRIES <- McRetries
          LINGER <- McLinger
          OWN_RESET <- McOwnReset
INVARIANT NodeInvariants
INVARIANT CacheOK
INVARIANT RouterDataOK
CHECK_DEADLOCK FALSE
