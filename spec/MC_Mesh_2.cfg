SPECIFICATION Spec
CONSTANTS N = 2
          MaxRounds = 5
INVARIANT FullMeshBy
INVARIANT NoSelfLink
INVARIANT EmitCfg
CHECK_DEADLOCK FALSE
