------------------------------- MODULE HsObj -------------------------------
(***************************************************************************)
(* One handshake object (a PeerCrypto with its InitState) as a value, and  *)
(* its two entry points as functions: Handle (a datagram arrives) and      *)
(* TickObj (one call of every_second).  Used by Handshake.tla (two objects *)
(* and a network) and by Node.tla (objects created and destroyed per       *)
(* address), so that both levels share one definition.                     *)
(*                                                                         *)
(* Code: src/crypto/init.rs InitState::{new, send_ping, handle_init,       *)
(*       every_second}, InitMsg::read_from (verification),                 *)
(*       src/crypto/common.rs PeerCrypto::{initialize, handle_init_message,*)
(*       every_second}.                                                    *)
(*                                                                         *)
(* Cryptography is symbolic: a session key is the pair of the two ECDH     *)
(* generations it was derived from; a signed message carries `signer` and  *)
(* `intact`; a payload sealed with core c opens with core d iff            *)
(* c.k = d.k /\ c.algo = d.algo /\ c.half # d.half.                        *)
(***************************************************************************)
EXTENDS Naturals, Sequences, FiniteSets, Negotiate

CONSTANTS MAX_RETRIES,   \* MAX_FAILED_RETRIES (120)
          CLOSE_TIME     \* linger of the initiator after success (60)

None == <<>>
NoSel == 98           \* no cipher selected yet (an integer, so that it is comparable with cipher ids)

\* attributes of an object that never change: node identity, rank of its salted node-id hash (the code draws a random
\* salt per object; only the order of two hashes matters), signing key, trusted keys, advertised algorithms, payload
NewObj(node, rank, key, trusted, algos, plain, payload) ==
  [node |-> node, rank |-> rank, key |-> key, trusted |-> trusted, algos |-> algos, plain |-> plain, payload |-> payload,
   stage |-> "fresh", last |-> None, retries |-> 0, closeT |-> CLOSE_TIME, ecdh |-> None, core |-> None, sel |-> NoSel]

\* wire message
Msg(o, st, g, enc) ==
  [st |-> st, node |-> o.node, rank |-> o.rank, g |-> g,
   algos |-> IF st \in {1, 2} THEN <<o.algos, o.plain>> ELSE None,
   enc |-> enc, signer |-> o.key, intact |-> TRUE]

Seal(core, payload, algo) == IF algo = Plain THEN [k |-> None, algo |-> Plain, half |-> FALSE, pl |-> payload]
                             ELSE [k |-> core.k, algo |-> core.algo, half |-> core.half, pl |-> payload]
Opens(core, algo, enc) == IF algo = Plain THEN enc.algo = Plain
                          ELSE enc.algo # Plain /\ enc.k = core.k /\ enc.algo = core.algo /\ enc.half # core.half

\* InitMsg::read_from succeeds: the bytes are those a holder of a trusted key signed
Verifies(o, m) == m.intact /\ m.signer \in o.trusted

Ret(o, out, res, pl) == [obj |-> o, out |-> out, res |-> res, payload |-> pl]

\* InitState::send_ping via PeerCrypto::initialize (g: fresh ECDH generation)
Initiate(o, g) ==
  LET o1 == [o EXCEPT !.ecdh = <<g>>, !.stage = "awaitPong"]
      m == Msg(o1, 1, <<g>>, None) IN
  Ret([o1 EXCEPT !.last = m], <<m>>, "cont", None)

\* the Ping arm of handle_init (the object is in, or has just been reset to, the fresh stage)
DoPing(o, m, g) ==
  LET algo == Choice(o.algos, o.plain, m.algos[1], m.algos[2]) IN
  IF algo = Fail THEN Ret([o EXCEPT !.retries = 0], <<>>, "fatal", None)
  ELSE LET core == IF algo = Plain THEN None ELSE [k |-> <<m.g[1], g>>, algo |-> algo, half |-> o.rank > m.rank]
           o1 == [o EXCEPT !.core = core, !.sel = algo, !.stage = "awaitPeng", !.retries = 0]
           r == Msg(o1, 2, <<g>>, Seal(core, o.payload, algo)) IN
       Ret([o1 EXCEPT !.last = r], <<r>>, "cont", None)

\* InitState::handle_init.  res: "err" (rejected, nothing changed, no reply), "fatal" (CryptoInitFatal: the caller
\* destroys the object), "cont" (Continue; out may be empty), "succI" / "succR" (Success as initiator / responder)
Handle(o, m, g) ==
  IF o.stage = "closing" THEN Ret(o, <<>>, "err", None)      \* PeerCrypto dropped its InitState: "initialization already finished"
  ELSE IF ~Verifies(o, m) THEN Ret(o, <<>>, "err", None)
  ELSE IF m.node = o.node THEN Ret(o, <<>>, "fatal", None)                       \* connected to self
  ELSE IF o.stage = "fresh" THEN
         IF m.st = 1 THEN DoPing(o, m, g) ELSE Ret(o, <<>>, "fatal", None)        \* invalid stage as first message
  ELSE IF o.stage = "awaitPong" /\ m.st = 1 THEN
         \* simultaneous open: the end with the smaller salted hash becomes responder, the other ignores the ping
         IF m.rank > o.rank THEN DoPing([o EXCEPT !.stage = "fresh", !.last = None, !.ecdh = None], m, g)
         ELSE Ret(o, <<>>, "cont", None)
  ELSE IF o.stage = "awaitPong" /\ m.st = 2 THEN
         LET algo == Choice(o.algos, o.plain, m.algos[1], m.algos[2])
             o0 == [o EXCEPT !.ecdh = None, !.retries = 0] IN
         IF algo = Fail THEN Ret(o0, <<>>, "fatal", None)
         ELSE LET core == IF algo = Plain THEN None ELSE [k |-> <<o.ecdh[1], m.g[1]>>, algo |-> algo, half |-> o.rank > m.rank]
                  o1 == [o0 EXCEPT !.core = core, !.sel = algo] IN
              IF ~Opens(core, algo, m.enc) THEN Ret(o1, <<>>, "fatal", None)      \* failed to decrypt payload
              ELSE LET o2 == [o1 EXCEPT !.stage = "waitClose", !.closeT = CLOSE_TIME]
                       r == Msg(o2, 3, None, Seal(core, o.payload, algo)) IN
                   Ret([o2 EXCEPT !.last = r], <<r>>, "succI", m.enc.pl)
  ELSE IF o.stage = "awaitPeng" /\ m.st = 3 THEN
         IF ~Opens(o.core, o.sel, m.enc) THEN Ret([o EXCEPT !.retries = 0], <<>>, "fatal", None)
         ELSE Ret([o EXCEPT !.stage = "closing", !.retries = 0], <<>>, "succR", m.enc.pl)
  ELSE \* unexpected stage: repeat the last datagram (every remaining stage has one)
       Ret(o, <<o.last>>, "cont", None)

\* InitState::every_second + removal of a closing object by PeerCrypto::every_second.
\* res: "ok", "gone" (object dropped silently after the linger period), "fatal" (initialization timeout)
TickObj(o) ==
  IF o.stage = "waitClose" THEN
       IF o.closeT = 0 THEN [obj |-> [o EXCEPT !.stage = "closing"], out |-> <<>>, res |-> "gone"]
       ELSE [obj |-> [o EXCEPT !.closeT = @ - 1], out |-> <<>>, res |-> "ok"]
  ELSE IF o.stage = "closing" THEN [obj |-> o, out |-> <<>>, res |-> "gone"]
  ELSE IF o.retries < MAX_RETRIES THEN
       [obj |-> [o EXCEPT !.retries = @ + 1], out |-> IF o.last = None THEN <<>> ELSE <<o.last>>, res |-> "ok"]
  ELSE [obj |-> [o EXCEPT !.stage = "closing"], out |-> <<>>, res |-> "fatal"]

\* n calls of every_second in closed form: [obj, cnt (repetitions of obj.last emitted), res].  Equal to iterating
\* TickObj (checked by TLC as TickManyOK in the design runs); used by the trace specification, where a leap of
\* 119 ticks must not be evaluated by a 119-deep lazy recursion.
TickMany(o, n) ==
  IF n = 0 THEN [obj |-> o, cnt |-> 0, res |-> "ok"]
  ELSE IF o.stage = "closing" THEN [obj |-> o, cnt |-> 0, res |-> "gone"]
  ELSE IF o.stage = "waitClose" THEN
       IF n <= o.closeT THEN [obj |-> [o EXCEPT !.closeT = @ - n], cnt |-> 0, res |-> "ok"]
       ELSE [obj |-> [o EXCEPT !.closeT = 0, !.stage = "closing"], cnt |-> 0, res |-> "gone"]
  ELSE LET room == MAX_RETRIES - o.retries IN
       IF n <= room THEN [obj |-> [o EXCEPT !.retries = @ + n], cnt |-> IF o.last = None THEN 0 ELSE n, res |-> "ok"]
       ELSE [obj |-> [o EXCEPT !.retries = MAX_RETRIES, !.stage = "closing"], cnt |-> IF o.last = None THEN 0 ELSE room, res |-> "fatal"]

RECURSIVE TickIter(_, _, _, _)
TickIter(o, n, cnt, res) ==
  IF n = 0 \/ res = "fatal" THEN [obj |-> o, cnt |-> cnt, res |-> res]
  ELSE LET r == TickObj(o) IN TickIter(r.obj, n - 1, cnt + Len(r.out), r.res)
TickManyAgrees(o, n) == TickMany(o, n) = TickIter(o, n, 0, "ok")
=============================================================================
