---------------------------- MODULE MC_Negotiate ----------------------------
(***************************************************************************)
(* Design run of C06: every pair of advertised lists.                      *)
(*                                                                         *)
(* A list is an ordered sub-list of the three ciphers with a speed from    *)
(* the grid for every entry (|Speeds| = 3: 226 lists), plus the            *)
(* allow-unencrypted flag on each side: (226 * 2)^2 = 204 304 pairs        *)
(* (|Speeds| = 5: 916 lists, 3 356 224 pairs).  The selection rule `Rule`  *)
(* is evaluated at both ends (a against b and b against a), which covers   *)
(* both initiator assignments: the rule does not look at the role.         *)
(*                                                                         *)
(*   Rule = "id"    ties broken by cipher identity: SelectOK must hold     *)
(*   Rule = "first" first maximum in OWN list order wins (the rule the     *)
(*                  code had before the repair): SelectOK must be REFUTED  *)
(*                  (MC_Negotiate_firstwins.cfg; the check requires the    *)
(*                  counterexample - the property has teeth)               *)
(***************************************************************************)
EXTENDS Negotiate, TLC

CONSTANTS Speeds,        \* speed grid (0 = "zero", 9 = "very large"; ties arise from equal values)
          Rule           \* "id" or "first"

RECURSIVE Perms(_)
Perms(S) == IF S = {} THEN {<<>>} ELSE UNION {{<<x>> \o p : p \in Perms(S \ {x})} : x \in S}

\* every ordering of every subset of the ciphers, every speed assignment
Lists == UNION {UNION {{[i \in 1..Len(p) |-> <<p[i], sp[p[i]]>>] : sp \in [C -> Speeds]} : p \in Perms(C)}
                : C \in SUBSET Ciphers}

\* Two stages only so that TLC's workers share the enumeration (initial states are computed by one thread): the
\* initial states fix one side, the single step picks the other side; the invariants speak about complete pairs.
VARIABLES a, ap, b, bp, complete
vars == <<a, ap, b, bp, complete>>

Init == a \in Lists /\ ap \in BOOLEAN /\ b = <<>> /\ bp = FALSE /\ complete = FALSE
Next == /\ ~complete /\ complete' = TRUE
        /\ b' \in Lists /\ bp' \in BOOLEAN
        /\ UNCHANGED <<a, ap>>
Spec == Init /\ [][Next]_vars

AtA == SelectWith(a, ap, b, bp, Rule)      \* what the end advertising a selects
AtB == SelectWith(b, bp, a, ap, Rule)      \* what the end advertising b selects

\* C06 at design level: same result at both ends, admissible for the two advertised SETS
SelectOK == complete => OutcomeOK(a, ap, b, bp, AtA, AtB)

\* the outcome is a function of the two advertised sets (Choice does not look at positions), hence independent of
\* list order and of who evaluates it; only demanded of the repaired rule
AsSet(l) == {l[i] : i \in 1..Len(l)}
FromSetsOnly == (complete /\ Rule = "id") => AtA = Choice(a, ap, b, bp)

\* no downgrade: unencrypted operation only if both flags, failure iff nothing in common
NoDowngrade == complete => /\ (AtA = Plain) = (ap /\ bp)
                           /\ (AtA = Fail) = (~(ap /\ bp) /\ CommonSet(a, b) = {})

\* an end takes unsealed messages only if both flags were set (follows from NoDowngrade; stated for the trace rule)
UnsealedOnlyIfBoth == complete => (TakesUnsealed(AtA # Fail, AtA) => (ap /\ bp)) /\ (TakesUnsealed(AtB # Fail, AtB) => (ap /\ bp))

\* Choice is well defined on sets: reordering either list does not change it (checked against a canonical order)
RECURSIVE SortById(_)
SortById(S) == IF S = {} THEN <<>> ELSE LET m == CHOOSE x \in S : \A y \in S : x[1] <= y[1] IN <<m>> \o SortById(S \ {m})
ChoiceOrderFree == complete => Choice(a, ap, b, bp) = Choice(SortById(AsSet(a)), ap, SortById(AsSet(b)), bp)
=============================================================================
