-------------------------------- MODULE Cloud --------------------------------
(***************************************************************************)
(* The control plane of one node (src/cloud.rs GenericCloud) as a set of   *)
(* next-state FUNCTIONS, one per critical section of the code:             *)
(*                                                                         *)
(*   Connect        GenericCloud::connect / connect_sock                   *)
(*   Housekeep      GenericCloud::housekeep (peer expiry + re-dial, table  *)
(*                  sweep, crypto_housekeep, announcement and its          *)
(*                  re-scheduling, reconnect_to_peers with back-off, own    *)
(*                  address reset)                                         *)
(*   Recv           handle_socket_event / handle_net_message /             *)
(*                  handle_message (dispatch on pending / peers / first    *)
(*                  byte; effects per classified result: add_new_peer,     *)
(*                  update_peer_info, set_claims, connect_to_peers,        *)
(*                  remove_peer, fatal handshake error)                    *)
(*   Iface, Close   handle_interface_data, shutdown close message          *)
(*                                                                         *)
(* A node state s is a record                                              *)
(*   peers  : set of [a, nid, exp, pt, init, ist, ct, addrs]               *)
(*   pend   : set of [a, st, r]        pending handshakes (stage, retries) *)
(*   claims : set of [p, r, exp]       claims table                        *)
(*   own    : set of addresses the node knows to be itself                 *)
(*   np, nr : next announcement, next own-address reset                    *)
(*   rc     : sequence of [a, tries, to, next]   configured peers          *)
(*   cache  : set of [a, p, exp]       decision cache / learned addresses  *)
(*            (a: address bytes), cx: the claims with their ranges as      *)
(*            bytes [p, r, exp, rb, rl] (for the longest-prefix match)     *)
(* and c its configuration [self, nid, T, ka, adv, key, trusted, claims,   *)
(* st (switch timeout), learn, bc].                                        *)
(* Every function returns the successor state together with the bag of     *)
(* datagrams the node must emit (as a sequence of <<destination, kind>>).  *)
(*                                                                         *)
(* The functions are deterministic wherever the code is: the only things   *)
(* left open are the internals of the handshake objects on a datagram      *)
(* (Handshake.tla / HsObj.tla decide those) and whether a key rotation     *)
(* message is due (Rotation.tla).  Trace_Cloud.tla compares every driver   *)
(* call recorded from real nodes with these functions, aspect by aspect;   *)
(* MC_Cloud.tla closes them with an environment and model-checks the       *)
(* invariants below.                                                       *)
(***************************************************************************)
EXTENDS Integers, Sequences, FiniteSets, Interval, Prefix

SeqSet(q) == {q[i] : i \in 1..Len(q)}
Addrs(S) == {x.a : x \in S}

STAGE_PONG == 2      \* an initiator waits for the pong
STAGE_PENG == 3      \* a responder waits for the peng
WAITING == 4         \* an initiator lingers to re-answer pongs
MAX_RETRIES == 120
LINGER == 60
OWN_RESET == 300
MAX_BACKOFF == 3600

\* ------------------------------------------------------------------ pieces
\* connect_sock: a handshake object as initiator unless the address is a peer, pending or the node itself
CanDial(s, a) == a \notin Addrs(s.peers) /\ a \notin Addrs(s.pend) /\ a \notin s.own
NewInitiator(a) == [a |-> a, st |-> STAGE_PONG, r |-> 0]
NewResponder(a) == [a |-> a, st |-> STAGE_PENG, r |-> 0]
Dial(s, a) == IF CanDial(s, a) THEN [s |-> [s EXCEPT !.pend = @ \cup {NewInitiator(a)}], out |-> <<<<a, "init">>>>]
              ELSE [s |-> s, out |-> <<>>]

\* GenericCloud::connect on a resolved address list: nothing at all when one of them is known
DialAll(s, addrs) ==
  IF \E i \in 1..Len(addrs) : ~CanDial(s, addrs[i]) THEN [s |-> s, out |-> <<>>]
  ELSE LET RECURSIVE go(_, _)
           go(acc, i) == IF i > Len(addrs) THEN acc
                         ELSE LET d == Dial(acc.s, addrs[i]) IN go([s |-> d.s, out |-> acc.out \o d.out], i + 1)
       IN go([s |-> s, out |-> <<>>], 1)

\* ClaimTable::remove_claims + housekeep
DropClaims(claims, p, now) == {x \in claims : x.p # p /\ x.exp >= now}
\* ClaimTable::set_claims + housekeep: exactly the announced ranges, refreshed
SetClaims(claims, p, ranges, now, T) ==
  {x \in claims : x.p # p /\ x.exp >= now} \cup {[p |-> p, r |-> r, exp |-> now + T] : r \in ranges}

\* announcement interval towards a peer that advertises timeout pt (add_new_peer) / towards all peers (housekeep)
Towards(c, pt) == Min2(Keepalive(c.T, c.ka) % 65536, Max2(SatSub(pt \div 2, 60), 1))

\* connect_to_peers: the peer list of a node information message, entry by entry
ConnectToPeers(s0, c, plist) ==
  LET RECURSIVE go(_, _)
      go(acc, i) ==
        IF i > Len(plist) THEN acc
        ELSE LET pe == plist[i]
                 s == acc.s IN
             IF \E k \in 1..Len(pe.addrs) : pe.addrs[k] \in Addrs(s.peers) THEN go(acc, i + 1)
             ELSE IF pe.hasid /\ pe.nid = c.nid
                  THEN go([s |-> [s EXCEPT !.own = @ \cup SeqSet(pe.addrs)], out |-> acc.out], i + 1)
             ELSE IF pe.hasid /\ \E p \in s.peers : p.nid = pe.nid THEN go(acc, i + 1)
             ELSE LET d == DialAll(s, pe.addrs) IN go([s |-> d.s, out |-> acc.out \o d.out], i + 1)
  IN go([s |-> s0, out |-> <<>>], 1)

Dedup(q) == LET RECURSIVE go(_, _)
                go(acc, i) == IF i > Len(q) THEN acc
                              ELSE go(IF q[i] \in SeqSet(acc) THEN acc ELSE Append(acc, q[i]), i + 1)
            IN go(<<>>, 1)

\* update_peer_info(src, info): refresh, addresses, claims, then dial what the peer lists
UpdatePeerInfo(s, c, src, info, now) ==
  LET ps == {IF p.a = src THEN [p EXCEPT !.exp = now + c.T, !.addrs = Dedup(<<src>> \o info.addrs)] ELSE p : p \in s.peers}
      \* ClaimTable::set_claims: when a claim of the peer is not announced any more, every decision cached for that peer
      \* goes; the sweep that follows drops whatever has expired
      \* (entry by entry: an announcement may list a range twice and the table then holds it twice - cseq is the claims
      \*  list with multiplicities; an old entry without a partner of its own in the new list counts as withdrawn)
      CountOld(r) == Cardinality({j \in 1..Len(s.cseq) : s.cseq[j].p = src /\ s.cseq[j].r = r})
      CountNew(r) == Cardinality({j \in 1..Len(info.claims) : info.claims[j] = r})
      withdrawn == \/ \E x \in s.claims : x.p = src /\ x.r \notin SeqSet(info.claims)
                   \/ \E i \in 1..Len(s.cseq) : s.cseq[i].p = src /\ CountOld(s.cseq[i].r) > CountNew(s.cseq[i].r)
      s1 == [s EXCEPT !.peers = ps, !.claims = SetClaims(s.claims, src, SeqSet(info.claims), now, c.T),
                      !.cache = {x \in @ : (withdrawn => x.p # src) /\ x.exp >= now}]
  IN ConnectToPeers(s1, c, info.peers)

\* ------------------------------------------------------------------ Connect
Connect(s, c, a) == DialAll(s, <<a>>)

\* ------------------------------------------------------------------ Housekeep
Housekeep(s, c, now) ==
  LET \* 1. peers whose expiry has passed are removed with their claims and re-dialled
      dead == {p \in s.peers : p.exp < now}
      alive == s.peers \ dead
      s1 == [s EXCEPT !.peers = alive, !.claims = {x \in @ : x.p \notin Addrs(dead) /\ x.exp >= now},
                      !.cache = {x \in @ : x.p \notin Addrs(dead) /\ x.exp >= now}]
      redial == {a \in Addrs(dead) : a \notin s.own /\ a \notin Addrs(s.pend)}
      pend1 == s.pend \cup {NewInitiator(a) : a \in redial}
      \* 2. crypto_housekeep: every pending handshake (also the ones just created) repeats its datagram or gives up;
      \*    a lingering initiator object of a peer counts down and disappears
      pend2 == {[q EXCEPT !.r = @ + 1] : q \in {q \in pend1 : q.r < MAX_RETRIES}}
      peers2 == {IF p.init /\ p.ist = WAITING
                 THEN (IF p.ct = 0 THEN [p EXCEPT !.init = FALSE, !.ist = 0, !.ct = -1] ELSE [p EXCEPT !.ct = @ - 1])
                 ELSE p : p \in alive}
      \* 3. announcement to every peer when due; the next one after Interval!Design
      due == s.np <= now
      np2 == IF due THEN now + Design(c.T, c.ka, {p.pt : p \in peers2}) ELSE s.np
      s3 == [s1 EXCEPT !.pend = pend2, !.peers = peers2, !.np = np2]
      \* 4. reconnect_to_peers: dial the configured peers that are due, then update every entry
      RECURSIVE rcDial(_, _)
      rcDial(acc, i) == IF i > Len(s.rc) THEN acc
                        ELSE IF s.rc[i].next > now THEN rcDial(acc, i + 1)
                        ELSE LET d == DialAll(acc.s, s.rc[i].a) IN rcDial([s |-> d.s, out |-> acc.out \o d.out], i + 1)
      s4 == rcDial([s |-> s3, out |-> <<>>], 1)
      Upd(e) == LET e1 == IF \E k \in 1..Len(e.a) : e.a[k] \in Addrs(s4.s.peers)
                          THEN [e EXCEPT !.tries = 0, !.to = 1, !.next = now + 1] ELSE e IN
                IF e1.next > now THEN e1
                ELSE LET t1 == e1.tries + 1
                         to1 == IF t1 > 10 THEN e1.to * 2 ELSE e1.to
                         to2 == IF to1 > MAX_BACKOFF THEN MAX_BACKOFF ELSE to1 IN
                     [e1 EXCEPT !.tries = IF t1 > 10 THEN 0 ELSE t1, !.to = to2, !.next = now + to2]
      rc5 == [i \in 1..Len(s.rc) |-> Upd(s.rc[i])]
      \* 5. the own addresses are rebuilt every OWN_RESET seconds
      reset == s.nr <= now
      s5 == [s4.s EXCEPT !.rc = rc5, !.own = IF reset THEN c.adv \cup {c.self} ELSE @, !.nr = IF reset THEN now + OWN_RESET ELSE @]
  IN [s |-> s5,
      \* emissions as a bag: one ping per re-dialled address, one repetition per surviving pending handshake,
      \* one node information message per peer when due, the dials of configured peers
      inits |-> [a \in redial \cup Addrs(pend2) |-> (IF a \in redial THEN 1 ELSE 0) + (IF a \in Addrs(pend2) THEN 1 ELSE 0)],
      infos |-> IF due THEN Addrs(peers2) ELSE {},
      rcout |-> s4.out,
      rotTo |-> Addrs(peers2)]

\* ------------------------------------------------------------------ Recv
\* which object a datagram from src reaches (handle_net_message)
Route(s, src, isInit) ==
  IF src \in Addrs(s.pend) /\ (isInit \/ src \notin Addrs(s.peers)) THEN "pending"
  ELSE IF isInit THEN (IF \E p \in s.peers : p.a = src /\ p.init THEN "peerinit" ELSE "responder")
  ELSE IF src \in Addrs(s.peers) THEN "peer"
  ELSE "none"

ThePend(s, src) == CHOOSE q \in s.pend : q.a = src
ThePeer(s, src) == CHOOSE p \in s.peers : p.a = src

\* the results that the route admits at all
ResultsOf(route) ==
  CASE route = "none" -> {"ignored"}
    [] route = "pending" -> {"reply", "initialized", "initialized-reply", "fatal", "errinit", "err"}
    [] route = "peerinit" -> {"reply", "fatal", "errinit", "err"}
    [] route = "responder" -> {"reply", "fatal", "errinit", "err"}
    [] route = "peer" -> {"data", "nodeinfo", "keepalive", "close", "none", "err"}

\* add_new_peer(src, info)
AddNewPeer(s, c, src, info, now) ==
  IF src \notin Addrs(s.pend) THEN [s |-> s, out |-> <<>>]
  ELSE LET q == ThePend(s, src)
           pt == IF info.pt >= 0 THEN info.pt ELSE DEFAULT_PEER_TIMEOUT
           initiator == q.st = STAGE_PONG
           p == [a |-> src, nid |-> info.nid, exp |-> now + c.T, pt |-> pt,
                 init |-> initiator, ist |-> IF initiator THEN WAITING ELSE 0, ct |-> IF initiator THEN LINGER ELSE -1,
                 addrs |-> info.addrs]
           s1 == [s EXCEPT !.pend = @ \ {q}, !.peers = {x \in @ : x.a # src} \cup {p},
                            !.np = Min2(@, now + Towards(c, pt))]
       IN UpdatePeerInfo(s1, c, src, info, now)

\* state after a datagram from src with classified result res (info: decoded node information where there is one);
\* obs: the pending entry as observed afterwards (its stage and retry counter are the handshake object's business)
Recv(s, c, src, isInit, res, info, now) ==
  LET route == Route(s, src, isInit) IN
  CASE res \in {"ignored", "err", "errinit", "none", "data", "panic"} -> [s |-> s, out |-> <<>>]
    [] res = "fatal" -> [s |-> [s EXCEPT !.pend = {q \in @ : q.a # src}], out |-> <<>>]
    [] res = "reply" ->
         IF route = "responder" THEN [s |-> [s EXCEPT !.pend = @ \cup {NewResponder(src)}], out |-> <<<<src, "init">>>>]
         ELSE [s |-> s, out |-> <<<<src, "init">>>>]
    [] res = "keepalive" ->
         [s |-> [s EXCEPT !.peers = {IF p.a = src THEN [p EXCEPT !.exp = now + c.T] ELSE p : p \in @}], out |-> <<>>]
    [] res = "close" ->
         [s |-> [s EXCEPT !.peers = {p \in @ : p.a # src}, !.claims = DropClaims(@, src, now),
                          !.cache = {x \in @ : x.p # src /\ x.exp >= now}], out |-> <<>>]
    [] res = "nodeinfo" -> UpdatePeerInfo(s, c, src, info, now)
    [] res \in {"initialized", "initialized-reply"} ->
         LET r == AddNewPeer(s, c, src, info, now) IN
         [s |-> r.s, out |-> IF res = "initialized-reply" THEN r.out \o <<<<src, "reply">>>> ELSE r.out]
    [] OTHER -> [s |-> s, out |-> <<>>]

\* how a pending handshake may look after it answered a datagram: unchanged, or restarted as responder
PendAfterReply(q0, q1) == (q1.st = q0.st /\ q1.r = q0.r) \/ (q1.st = STAGE_PENG /\ q1.r = 0)

\* ------------------------------------------------------------------ mode flags (GenericCloud::new)
\* <<learning, broadcasting>>: a switch learns and floods; a hub floods and learns nothing; a router does neither; "normal"
\* is a switch on a tap device and a router on a tun device
ModeFlags(mode, dev) ==
  CASE mode = "switch" -> <<TRUE, TRUE>>
    [] mode = "hub" -> <<FALSE, TRUE>>
    [] mode = "router" -> <<FALSE, FALSE>>
    [] mode = "normal" -> IF dev = "tap" THEN <<TRUE, TRUE>> ELSE <<FALSE, FALSE>>

\* ------------------------------------------------------------------ data plane (handle_interface_data, handle_payload_from)
CacheOf(s, a) == {x \in s.cache : x.a = a}
Covering(s, a) == {x \in s.cx : x.exp >= 0 /\ MatchesBytes(x.rb, x.rl, a)}
BestClaims(s, a) == {x \in Covering(s, a) : \A y \in Covering(s, a) : y.rl <= x.rl}

\* what may happen to a frame for destination dst read from the interface: the peers it is sent to and the cache
\* afterwards.  A cached decision is used as it is (the sweep of every housekeeping round removes expired ones);
\* otherwise the most specific claim containing dst decides (ties: any of them) and the decision is cached until
\* min(now + switch timeout, expiry of that claim); otherwise all peers (broadcasting modes) or nobody.
\* A next hop that is not a peer gets nothing (send_msg refuses).
IfaceOutcomes(s, c, dst, now) ==
  IF CacheOf(s, dst) # {}
  THEN {[hops |-> {x.p : x \in CacheOf(s, dst)} \cap Addrs(s.peers), cache |-> s.cache]}
  ELSE IF BestClaims(s, dst) # {}
  THEN {[hops |-> {x.p} \cap Addrs(s.peers),
         cache |-> s.cache \cup {[a |-> dst, p |-> x.p, exp |-> Min2(now + c.st, x.exp)]}] : x \in BestClaims(s, dst)}
  ELSE {[hops |-> IF c.bc THEN Addrs(s.peers) ELSE {}, cache |-> s.cache]}

\* learning (switch mode): the source address of a delivered frame is reached through the peer it came from
LearnFrom(s, c, src, fsrc, now) ==
  IF c.learn THEN {x \in s.cache : x.a # fsrc} \cup {[a |-> fsrc, p |-> src, exp |-> now + c.st]} ELSE s.cache

\* ------------------------------------------------------------------ invariants of a node state (C12, C14, C15)
NextHopsArePeers(s) == \A x \in s.claims : x.p \in Addrs(s.peers)
NoSelfPeer(s, c) == \A p \in s.peers : p.nid # c.nid /\ p.a \notin s.own
OneEntryPerAddress(s) == /\ \A p, q \in s.peers : p.a = q.a => p = q
                         /\ \A p, q \in s.pend : p.a = q.a => p = q
BackoffBounded(s) == \A i \in 1..Len(s.rc) : s.rc[i].to <= MAX_BACKOFF /\ s.rc[i].to >= 1
=============================================================================
