//! C16: wire codecs (NodeInfo, InitMsg, RotationMessage) - round trips and totality on the real code.
//!
//! `codec roundtrip <quick|thorough> <trace.ndjson>`: generated messages -> real encoder -> unknown parts spliced at
//!     part boundaries (handshake datagrams re-signed) -> real decoder; one *abstract* event per decode.  The harness
//!     only reports structure (families, counts, tags) and byte-equality look-ups ("decoded address j is byte-equal to
//!     the k-th IPv6 address that was put in"); which entries must survive, in which order, is decided by TLC with
//!     `Normalise*` / `Decode*` of Codec.tla.
//! `codec total <quick|thorough> <trace.ndjson>`: every truncation, single-byte substitutions at tag / length / count
//!     positions, random strings, each also followed by 64 KiB of stale bytes; decoders run under `guarded`; one event
//!     per family plus one per flagged member.
use super::util::*;
use crate::crypto::verif_export::{InitMsg, RotationMessage, RotationState};
use crate::crypto::{Algorithms, EcdhPublicKey};
use crate::messages::{NodeInfo, PeerInfo};
use crate::types::{Address, NodeId, Range};
use crate::util::MsgBuffer;
use rand::{rngs::StdRng, seq::SliceRandom, Rng, RngCore};
use ring::aead::{AES_128_GCM, AES_256_GCM, CHACHA20_POLY1305};
use ring::agreement::X25519;
use ring::signature::{Ed25519KeyPair, KeyPair};
use serde_json::{json, Value};
use smallvec::SmallVec;
use std::io::Cursor;
use std::net::{Ipv4Addr, Ipv6Addr, SocketAddr, SocketAddrV4, SocketAddrV6};
use std::sync::atomic::{AtomicU64, Ordering};
use std::time::Instant;

pub fn run(args: &[String]) -> Value {
    let a = |i: usize| args.get(i).map(|s| s.as_str()).unwrap_or("");
    let thorough = a(1) == "thorough";
    match a(0) {
        "roundtrip" => roundtrip(thorough, a(2)),
        "total" => total(thorough, a(2)),
        "decode" => decode_one(a(1), a(2)),
        "observe" => observe(),
        _ => json!({"error": "usage: codec roundtrip|total <quick|thorough> <trace>"}),
    }
}

// ------------------------------------------------------------------------------------------------ byte-level helpers

/// One part of a tag-length-value sequence: `pos` = index of the tag byte, body = b[pos + 3 .. pos + 3 + len].
#[derive(Clone, Debug)]
struct Tlv {
    pos: usize,
    tag: u8,
    len: usize,
}

/// Walks a well-formed TLV sequence from `start`; returns the parts and the index of the end marker.
fn walk(b: &[u8], start: usize) -> (Vec<Tlv>, usize) {
    let mut parts = vec![];
    let mut p = start;
    loop {
        assert!(p < b.len(), "harness: encoding without end marker");
        if b[p] == 0 {
            return (parts, p);
        }
        let len = ((b[p + 1] as usize) << 8) | b[p + 2] as usize;
        parts.push(Tlv { pos: p, tag: b[p], len });
        p += 3 + len;
    }
}

#[derive(Clone, Debug)]
struct WPart {
    tag: u8,
    body: Vec<u8>,
}

fn wparts(b: &[u8], start: usize) -> (Vec<WPart>, usize) {
    let (ps, end) = walk(b, start);
    (ps.iter().map(|p| WPart { tag: p.tag, body: b[p.pos + 3..p.pos + 3 + p.len].to_vec() }).collect(), end)
}

fn put_parts(out: &mut Vec<u8>, parts: &[WPart]) {
    for p in parts {
        out.push(p.tag);
        out.push((p.body.len() >> 8) as u8);
        out.push(p.body.len() as u8);
        out.extend_from_slice(&p.body);
    }
    out.push(0);
}

/// Insertions `(at, part)`: `at` = index of the original part the new one is put in front of (number of parts =
/// directly before the end marker).  Sorted by `at`; equal positions keep their order.
fn insert_parts(parts: &[WPart], ins: &[(usize, WPart)]) -> Vec<WPart> {
    let mut out = vec![];
    for i in 0..=parts.len() {
        for (at, p) in ins {
            if *at == i {
                out.push(p.clone());
            }
        }
        if i < parts.len() {
            out.push(parts[i].clone());
        }
    }
    out
}

fn unknown_part(rng: &mut StdRng, known_max: u8) -> WPart {
    let tag = rng.gen_range(known_max + 1..=255u8);
    let len = match rng.gen_range(0..60) {
        0 => 0,
        1 => 300,
        2 => rng.gen_range(1000..60000),
        _ => rng.gen_range(0..40),
    };
    let mut body = vec![0u8; len];
    rng.fill_bytes(&mut body);
    // now and then a body that looks like a known part (a node id, a flags byte with counts)
    if len == 16 || rng.gen_range(0..10) == 0 {
        for x in body.iter_mut().take(3) {
            *x = [0xbf, 0x09, 0x01][rng.gen_range(0..3)];
        }
    }
    WPart { tag, body }
}

fn fam_of(a: &SocketAddr) -> u64 {
    match a {
        SocketAddr::V4(_) => 4,
        SocketAddr::V6(_) => 6,
    }
}

fn tags_of(parts: &[WPart]) -> Vec<u64> {
    let mut t: Vec<u64> = parts.iter().map(|p| p.tag as u64).collect();
    t.push(0);
    t
}

// ------------------------------------------------------------------------------------------------ NodeInfo round trips

fn gen_addrs(rng: &mut StdRng, n4: usize, n6: usize, pattern: u32) -> Vec<SocketAddr> {
    let mut fams: Vec<u8> = vec![];
    match pattern % 4 {
        0 => {
            fams.extend(std::iter::repeat(4).take(n4));
            fams.extend(std::iter::repeat(6).take(n6));
        }
        1 => {
            fams.extend(std::iter::repeat(6).take(n6));
            fams.extend(std::iter::repeat(4).take(n4));
        }
        _ => {
            fams.extend(std::iter::repeat(4).take(n4));
            fams.extend(std::iter::repeat(6).take(n6));
            fams.shuffle(rng);
        }
    }
    let mut out: Vec<SocketAddr> = vec![];
    for f in fams {
        loop {
            let a = if f == 4 {
                SocketAddr::V4(SocketAddrV4::new(Ipv4Addr::from(rng.gen::<u32>()), rng.gen()))
            } else {
                SocketAddr::V6(SocketAddrV6::new(Ipv6Addr::from(rng.gen::<u128>()), rng.gen(), 0, 0))
            };
            if !out.contains(&a) {
                out.push(a);
                break;
            }
        }
    }
    out
}

fn gen_claim(rng: &mut StdRng, len: u8, prefix: u8) -> Range {
    let mut data = [0u8; 16];
    rng.fill_bytes(&mut data[..len as usize]);
    Range { base: Address { data, len }, prefix_len: prefix }
}

fn gen_id(rng: &mut StdRng) -> NodeId {
    let mut id = [0u8; 16];
    rng.fill_bytes(&mut id);
    id
}

struct NiShape {
    peers: Vec<(bool, usize, usize)>,
    claims: Vec<(u8, u8)>,
    timeout: bool,
    own: (usize, usize),
}

fn build_ni(rng: &mut StdRng, s: &NiShape) -> NodeInfo {
    let mut info = NodeInfo {
        node_id: gen_id(rng),
        peers: SmallVec::new(),
        claims: SmallVec::new(),
        peer_timeout: if s.timeout { Some(rng.gen()) } else { None },
        addrs: SmallVec::new(),
    };
    for (has_id, n4, n6) in &s.peers {
        let pat = rng.gen();
        let addrs = gen_addrs(rng, *n4, *n6, pat);
        info.peers.push(PeerInfo { node_id: if *has_id { Some(gen_id(rng)) } else { None }, addrs: addrs.into_iter().collect() });
    }
    for (l, p) in &s.claims {
        info.claims.push(gen_claim(rng, *l, *p));
    }
    let pat = rng.gen();
    info.addrs = gen_addrs(rng, s.own.0, s.own.1, pat).into_iter().collect();
    info
}

/// fam / idx description of a decoded address list relative to the list that went in.
fn describe_addrs(orig: &[SocketAddr], got: &[SocketAddr]) -> (Vec<u64>, Vec<u64>) {
    let fam: Vec<u64> = got.iter().map(fam_of).collect();
    let idx: Vec<u64> = got
        .iter()
        .map(|g| {
            orig.iter().filter(|o| fam_of(o) == fam_of(g)).position(|o| o == g).map(|p| p as u64 + 1).unwrap_or(0)
        })
        .collect();
    (fam, idx)
}

fn ni_got_empty() -> Value {
    json!({"id_ok": false, "peers": [], "claims": [], "claims_ok": false, "timeout": false, "timeout_ok": false,
           "addrs": {"fam": [], "idx": []}})
}

fn ni_got(orig: &NodeInfo, got: &NodeInfo) -> Value {
    let peers: Vec<Value> = got
        .peers
        .iter()
        .enumerate()
        .map(|(i, p)| {
            let o = orig.peers.get(i);
            let (fam, idx) = describe_addrs(o.map(|o| &o.addrs[..]).unwrap_or(&[]), &p.addrs);
            let id_ok = match o {
                Some(o) => o.node_id == p.node_id,
                None => false,
            };
            json!({"id": p.node_id.is_some(), "id_ok": id_ok, "fam": fam, "idx": idx})
        })
        .collect();
    let claims: Vec<Value> = got.claims.iter().map(|c| json!([c.base.len, c.prefix_len])).collect();
    // byte equality of the claims position by position (lengths and prefixes are also judged by TLC)
    let claims_ok = got.claims.len() == orig.claims.len() && got.claims.iter().zip(orig.claims.iter()).all(|(a, b)| a == b);
    let (fam, idx) = describe_addrs(&orig.addrs, &got.addrs);
    json!({"id_ok": got.node_id == orig.node_id, "peers": peers, "claims": claims, "claims_ok": claims_ok,
           "timeout": got.peer_timeout.is_some(), "timeout_ok": got.peer_timeout == orig.peer_timeout,
           "addrs": {"fam": fam, "idx": idx}})
}

fn ni_event(case: u64, src: &str, orig: &NodeInfo, ins: &[(usize, WPart)], tags: &[u64], res: &str, note: &str, got: Value) -> Value {
    let peers: Vec<Value> =
        orig.peers.iter().map(|p| json!({"id": p.node_id.is_some(), "fam": p.addrs.iter().map(fam_of).collect::<Vec<_>>()})).collect();
    let claims: Vec<Value> = orig.claims.iter().map(|c| json!([c.base.len, c.prefix_len])).collect();
    let ins_j: Vec<Value> = ins.iter().map(|(at, p)| json!({"at": at, "tag": p.tag, "len": p.body.len()})).collect();
    json!({"op": "nodeinfo", "case": case, "src": src, "peers": peers, "claims": claims, "timeout": orig.peer_timeout.is_some(),
           "addrs": orig.addrs.iter().map(fam_of).collect::<Vec<_>>(), "ins": ins_j, "tags": tags,
           "res": res, "note": note, "got": got})
}

fn encode_ni(info: &NodeInfo) -> Result<Vec<u8>, String> {
    guarded(|| {
        let mut b = MsgBuffer::new(0);
        info.encode(&mut b);
        b.message().to_vec()
    })
}

fn decode_ni(bytes: &[u8]) -> Result<Result<NodeInfo, String>, String> {
    guarded(|| NodeInfo::decode(Cursor::new(bytes)).map_err(|e| e.to_string()))
}

/// Encodes, splices, decodes, logs.  Returns the number of decodes.
fn ni_roundtrip(t: &mut Trace, rng: &mut StdRng, case: u64, src: &str, info: &NodeInfo, mode: u32) -> u64 {
    let enc = match encode_ni(info) {
        Ok(e) => e,
        Err(m) => {
            t.ev(ni_event(case, src, info, &[], &[], "panic", &format!("encoder: {}", m), ni_got_empty()));
            return 1;
        }
    };
    let (parts, _) = wparts(&enc, 0);
    let n = parts.len();
    let mut variants: Vec<Vec<(usize, WPart)>> = vec![vec![]];
    let single = |rng: &mut StdRng, at: usize| vec![(at, unknown_part(rng, 5))];
    let double = |rng: &mut StdRng, a: usize, b: usize| {
        let (a, b) = if a <= b { (a, b) } else { (b, a) };
        vec![(a, unknown_part(rng, 5)), (b, unknown_part(rng, 5))]
    };
    match mode {
        // every position once, the same position twice, two random pairs
        0 => {
            for at in 0..=n {
                variants.push(single(rng, at));
            }
            let at = rng.gen_range(0..=n);
            variants.push(double(rng, at, at));
            for _ in 0..2 {
                let (a, b) = (rng.gen_range(0..=n), rng.gen_range(0..=n));
                variants.push(double(rng, a, b));
            }
        }
        // every position once
        1 => {
            for at in 0..=n {
                variants.push(single(rng, at));
            }
        }
        // one random single, one random pair
        _ => {
            let at = rng.gen_range(0..=n);
            variants.push(single(rng, at));
            let (a, b) = (rng.gen_range(0..=n), rng.gen_range(0..=n));
            variants.push(double(rng, a, b));
        }
    }
    let mut decodes = 0;
    for ins in &variants {
        let bytes = if ins.is_empty() {
            enc.clone() // exactly what the encoder produced
        } else {
            let mut b = vec![];
            put_parts(&mut b, &insert_parts(&parts, ins));
            b
        };
        let tags = tags_of(&insert_parts(&parts, ins));
        decodes += 1;
        let ev = match decode_ni(&bytes) {
            Ok(Ok(got)) => ni_event(case, src, info, ins, &tags, "ok", "", ni_got(info, &got)),
            Ok(Err(e)) => ni_event(case, src, info, ins, &tags, "err", &e, ni_got_empty()),
            Err(m) => ni_event(case, src, info, ins, &tags, "panic", &m, ni_got_empty()),
        };
        t.ev(ev);
    }
    decodes
}

fn ni_roundtrips(t: &mut Trace, thorough: bool) -> (u64, u64) {
    let mut rng = rng(1601);
    let (mut cases, mut decodes) = (0u64, 0u64);
    // (1) 0..20 peers; the per-family counts walk through all pairs (0..9) x (0..9)
    let mut k = 0usize;
    for rep in 0..(if thorough { 4 } else { 1 }) {
        for p in 0..=20usize {
            let mut peers = vec![];
            for _ in 0..p {
                peers.push((rng.gen_bool(0.6), k % 10, (k / 10 + rep * 3) % 10));
                k += 1;
            }
            let nclaims = rng.gen_range(0..4);
            let s = NiShape {
                peers,
                claims: (0..nclaims).map(|_| (rng.gen_range(0..=16), rng.gen())).collect(),
                timeout: (p + rep) % 2 == 0,
                own: (p % 10, (p * 7 + rep) % 10),
            };
            let info = build_ni(&mut rng, &s);
            cases += 1;
            decodes += ni_roundtrip(t, &mut rng, cases, "peer-sweep", &info, 0);
        }
    }
    // (2) claims: every address length 0..16 with every prefix 0..255
    for len in 0..=16u8 {
        for chunk in 0..4u32 {
            let s = NiShape {
                peers: vec![(chunk % 2 == 0, (len as usize) % 10, chunk as usize)],
                claims: (0..64u32).map(|i| (len, (chunk * 64 + i) as u8)).collect(),
                timeout: len % 2 == 0,
                own: (1, 1),
            };
            let info = build_ni(&mut rng, &s);
            cases += 1;
            decodes += ni_roundtrip(t, &mut rng, cases, "claim-sweep", &info, 1);
        }
    }
    // (3) the node's own address list: all pairs of counts
    for n4 in 0..=9usize {
        for n6 in 0..=9usize {
            let s = NiShape {
                peers: if (n4 + n6) % 3 == 0 { vec![] } else { vec![(true, n6, n4)] },
                claims: vec![(4, 24)],
                timeout: (n4 + n6) % 2 == 0,
                own: (n4, n6),
            };
            let info = build_ni(&mut rng, &s);
            cases += 1;
            decodes += ni_roundtrip(t, &mut rng, cases, "own-sweep", &info, 2);
        }
    }
    // (4) random messages
    let nrand = if thorough { 2500 } else { 90 };
    for i in 0..nrand {
        let np = if rng.gen_bool(0.15) { 20 } else { rng.gen_range(0..=20) };
        let nclaims = rng.gen_range(0..9);
        let s = NiShape {
            peers: (0..np).map(|_| (rng.gen_bool(0.5), rng.gen_range(0..=9), rng.gen_range(0..=9))).collect(),
            claims: (0..nclaims).map(|_| (rng.gen_range(0..=16), rng.gen())).collect(),
            timeout: rng.gen(),
            own: (rng.gen_range(0..=9), rng.gen_range(0..=9)),
        };
        let info = build_ni(&mut rng, &s);
        cases += 1;
        decodes += ni_roundtrip(t, &mut rng, cases, "random", &info, if i % 3 == 0 { 0 } else { 2 });
    }
    (cases, decodes)
}

// ------------------------------------------------------------------------------------------------ InitMsg round trips

const IM_STAGE: u8 = 1;
const IM_HASH: u8 = 2;
const IM_ECDH: u8 = 3;
const IM_ALGOS: u8 = 4;
const IM_PAYLOAD: u8 = 5;

struct Keys {
    pair: Ed25519KeyPair,
    trusted: Vec<[u8; 32]>,
}

fn make_keys(rng: &mut StdRng) -> Keys {
    let mut mk = |rng: &mut StdRng| {
        let mut seed = [0u8; 32];
        rng.fill_bytes(&mut seed);
        Ed25519KeyPair::from_seed_unchecked(&seed).expect("key pair")
    };
    let pair = mk(rng);
    let mut trusted = vec![];
    for _ in 0..2 {
        let o = mk(rng);
        let mut pk = [0u8; 32];
        pk.copy_from_slice(o.public_key().as_ref());
        trusted.push(pk);
    }
    let mut pk = [0u8; 32];
    pk.copy_from_slice(pair.public_key().as_ref());
    trusted.push(pk);
    Keys { pair, trusted }
}

fn algo_of(id: u8) -> &'static ring::aead::Algorithm {
    match id {
        1 => &AES_128_GCM,
        2 => &AES_256_GCM,
        _ => &CHACHA20_POLY1305,
    }
}

fn id_of(a: &'static ring::aead::Algorithm) -> u64 {
    if a == &AES_128_GCM {
        1
    } else if a == &AES_256_GCM {
        2
    } else if a == &CHACHA20_POLY1305 {
        3
    } else {
        99
    }
}

fn ecdh_key(bytes: &[u8]) -> EcdhPublicKey {
    EcdhPublicKey::new(&X25519, SmallVec::from_slice(bytes))
}

fn payload_buf(bytes: &[u8]) -> MsgBuffer {
    let mut p = MsgBuffer::new(0);
    p.clone_from(bytes);
    p
}

/// Datagram = 8-byte key selector + parts + end marker + signature over everything before the signature length.
fn assemble_im(prefix: &[u8], parts: &[WPart], key: &Ed25519KeyPair) -> Vec<u8> {
    let mut b = prefix[..8].to_vec();
    put_parts(&mut b, parts);
    let sig = key.sign(&b);
    b.push(sig.as_ref().len() as u8);
    b.extend_from_slice(sig.as_ref());
    b
}

fn read_im(bytes: &[u8], keys: &Keys) -> Result<Result<InitMsg, String>, String> {
    guarded(|| InitMsg::verif_read_from(bytes, &keys.trusted).map(|(m, _)| m).map_err(|e| e.to_string()))
}

fn last_body<'a>(parts: &'a [WPart], tag: u8) -> Option<&'a [u8]> {
    parts.iter().rev().find(|p| p.tag == tag).map(|p| &p.body[..])
}

fn algo_entries(body: &[u8]) -> Vec<(u8, u32)> {
    body.chunks_exact(5).map(|c| (c[0], u32::from_be_bytes([c[1], c[2], c[3], c[4]]))).collect()
}

fn im_got_empty() -> Value {
    json!({"stage": 0, "has_ecdh": false, "has_algos": false, "has_payload": false, "unenc": false, "algos": [], "idx": []})
}

/// Describes a decoded handshake message relative to the parts that were on the wire; returns (got, content_ok).
fn im_got(parts: &[WPart], m: &InitMsg) -> (Value, bool) {
    let (stage, hash, ecdh, algos, payload): (u64, &[u8; 20], Option<&EcdhPublicKey>, Option<&Algorithms>, Option<&MsgBuffer>) = match m {
        InitMsg::Ping { salted_node_id_hash, ecdh_public_key, algorithms } => (1, salted_node_id_hash, Some(ecdh_public_key), Some(algorithms), None),
        InitMsg::Pong { salted_node_id_hash, ecdh_public_key, algorithms, encrypted_payload } => {
            (2, salted_node_id_hash, Some(ecdh_public_key), Some(algorithms), Some(encrypted_payload))
        }
        InitMsg::Peng { salted_node_id_hash, encrypted_payload } => (3, salted_node_id_hash, None, None, Some(encrypted_payload)),
    };
    let mut content_ok = last_body(parts, IM_HASH) == Some(&hash[..]);
    if let Some(k) = ecdh {
        content_ok &= last_body(parts, IM_ECDH) == Some(&k.bytes()[..]);
    }
    if let Some(p) = payload {
        content_ok &= last_body(parts, IM_PAYLOAD) == Some(p.message());
    }
    let wire = last_body(parts, IM_ALGOS).map(algo_entries).unwrap_or_default();
    let (mut ids, mut idx) = (vec![], vec![]);
    if let Some(a) = algos {
        for (algo, speed) in &a.algorithm_speeds {
            ids.push(id_of(algo));
            // the wire entry this one stems from: the speeds put on the wire are pairwise different
            idx.push(wire.iter().position(|(_, s)| *s == speed.to_bits()).map(|p| p as u64 + 1).unwrap_or(0));
        }
    }
    (
        json!({"stage": stage, "has_ecdh": ecdh.is_some(), "has_algos": algos.is_some(), "has_payload": payload.is_some(),
               "unenc": algos.map(|a| a.allow_unencrypted).unwrap_or(false), "algos": ids, "idx": idx}),
        content_ok,
    )
}

fn im_event(case: u64, src: &str, parts: &[WPart], ins: usize, res: &str, note: &str, got: Value, content_ok: bool) -> Value {
    let stage = match last_body(parts, IM_STAGE) {
        Some(b) if b.len() == 1 => b[0] as u64,
        _ => 0,
    };
    let algos: Vec<u64> = last_body(parts, IM_ALGOS).map(algo_entries).unwrap_or_default().iter().map(|(i, _)| *i as u64).collect();
    json!({"op": "init", "case": case, "src": src, "stage": stage, "tags": tags_of(parts), "algos": algos, "unknown": ins,
           "res": res, "note": note, "got": got, "content_ok": content_ok})
}

fn im_feed(t: &mut Trace, case: u64, src: &str, bytes: &[u8], parts: &[WPart], ins: usize, keys: &Keys) {
    let ev = match read_im(bytes, keys) {
        Ok(Ok(m)) => {
            let (got, ok) = im_got(parts, &m);
            im_event(case, src, parts, ins, "ok", "", got, ok)
        }
        Ok(Err(e)) => im_event(case, src, parts, ins, "err", &e, im_got_empty(), false),
        Err(m) => im_event(case, src, parts, ins, "panic", &m, im_got_empty(), false),
    };
    t.ev(ev);
}

fn distinct_speed(rng: &mut StdRng, used: &mut Vec<u32>) -> f32 {
    loop {
        let s: f32 = rng.gen_range(1.0..5000.0);
        if !used.contains(&s.to_bits()) && s.to_bits() != f32::INFINITY.to_bits() {
            used.push(s.to_bits());
            return s;
        }
    }
}

fn gen_im(rng: &mut StdRng, stage: u8, ids: &[u8], unenc: bool, keylen: usize, paylen: usize) -> InitMsg {
    let mut hash = [0u8; 20];
    rng.fill_bytes(&mut hash);
    let mut key = vec![0u8; keylen];
    rng.fill_bytes(&mut key);
    let mut pay = vec![0u8; paylen];
    rng.fill_bytes(&mut pay);
    let mut used = vec![];
    let algorithms = Algorithms {
        algorithm_speeds: ids.iter().map(|i| (algo_of(*i), distinct_speed(rng, &mut used))).collect(),
        allow_unencrypted: unenc,
    };
    match stage {
        1 => InitMsg::Ping { salted_node_id_hash: hash, ecdh_public_key: ecdh_key(&key), algorithms },
        2 => InitMsg::Pong { salted_node_id_hash: hash, ecdh_public_key: ecdh_key(&key), algorithms, encrypted_payload: payload_buf(&pay) },
        _ => InitMsg::Peng { salted_node_id_hash: hash, encrypted_payload: payload_buf(&pay) },
    }
}

fn im_roundtrips(t: &mut Trace, thorough: bool) -> (u64, u64) {
    let mut rng = rng(1602);
    let keys = make_keys(&mut rng);
    let (mut cases, mut decodes) = (0u64, 0u64);
    // ordered selections of the three algorithms
    let mut lists: Vec<Vec<u8>> = vec![vec![]];
    for a in 1..=3u8 {
        lists.push(vec![a]);
        for b in 1..=3u8 {
            if b != a {
                lists.push(vec![a, b]);
                for c in 1..=3u8 {
                    if c != a && c != b {
                        lists.push(vec![a, b, c]);
                    }
                }
            }
        }
    }
    let keylens = [32usize, 0, 1, 31, 33, 96, 200];
    let paylens = [0usize, 1, 48, 1000, 60000];
    let mut buf = vec![0u8; 70000];
    let mut n = 0usize;
    let reps = if thorough { 6 } else { 1 };
    for rep in 0..reps {
        for stage in 1..=3u8 {
            for (li, ids) in lists.iter().enumerate() {
                if stage == 3 && li > 1 {
                    continue;
                }
                for unenc in [false, true] {
                    n += 1;
                    let keylen = if rep == 0 && n % 3 != 0 { 32 } else { keylens[n % keylens.len()] };
                    let msg = gen_im(&mut rng, stage, ids, unenc, keylen, paylens[(n + rep) % paylens.len()]);
                    cases += 1;
                    let len = match guarded(|| msg.verif_write_to(&mut buf, &keys.pair)) {
                        Ok(Ok(l)) => l,
                        Ok(Err(e)) => panic!("harness: write buffer too small: {}", e),
                        Err(m) => {
                            t.ev(im_event(cases, "encoder", &[], 0, "panic", &format!("encoder: {}", m), im_got_empty(), false));
                            continue;
                        }
                    };
                    let bytes = buf[..len].to_vec();
                    let (parts, _) = wparts(&bytes, 8);
                    // (a) exactly what the encoder wrote
                    im_feed(t, cases, "encoder", &bytes, &parts, 0, &keys);
                    decodes += 1;
                    // (b) unknown parts at every boundary (re-signed), a pair at one boundary, a random pair
                    let np = parts.len();
                    let mut variants: Vec<Vec<(usize, WPart)>> = (0..=np).map(|at| vec![(at, unknown_part(&mut rng, 5))]).collect();
                    let at = rng.gen_range(0..=np);
                    variants.push(vec![(at, unknown_part(&mut rng, 5)), (at, unknown_part(&mut rng, 5))]);
                    let (a, b) = (rng.gen_range(0..=np), rng.gen_range(0..=np));
                    variants.push(vec![(a.min(b), unknown_part(&mut rng, 5)), (a.max(b), unknown_part(&mut rng, 5))]);
                    if n % 4 != 1 && !thorough {
                        variants.truncate(0);
                        let at = rng.gen_range(0..=np);
                        variants.push(vec![(at, unknown_part(&mut rng, 5))]);
                    }
                    for ins in &variants {
                        let p2 = insert_parts(&parts, ins);
                        let b2 = assemble_im(&bytes, &p2, &keys.pair);
                        im_feed(t, cases, "spliced", &b2, &p2, ins.len(), &keys);
                        decodes += 1;
                    }
                    // (c) wire-level variants a newer or different encoder could send (all re-signed)
                    if stage != 3 {
                        let ai = parts.iter().position(|p| p.tag == IM_ALGOS).expect("algorithms part");
                        let base = algo_entries(&parts[ai].body);
                        // an unknown algorithm id at every position of the list; flag entries in other places
                        for pos in 0..=base.len() {
                            for id in [4u8, 9, 0x7f, 0xff, 0] {
                                if !thorough && (pos + id as usize + n) % 3 != 0 {
                                    continue;
                                }
                                let mut ents = base.clone();
                                let mut used: Vec<u32> = ents.iter().map(|e| e.1).collect();
                                ents.insert(pos, (id, distinct_speed(&mut rng, &mut used).to_bits()));
                                let mut p2 = parts.clone();
                                p2[ai].body = ents.iter().flat_map(|(i, s)| std::iter::once(*i).chain(s.to_be_bytes())).collect();
                                let b2 = assemble_im(&bytes, &p2, &keys.pair);
                                im_feed(t, cases, "algo-variant", &b2, &p2, 0, &keys);
                                decodes += 1;
                            }
                        }
                    }
                    // parts in another order; one part left out (what is mandatory is decided by the specification)
                    if n % 2 == 0 || thorough {
                        let mut p2 = parts.clone();
                        p2.shuffle(&mut rng);
                        let b2 = assemble_im(&bytes, &p2, &keys.pair);
                        im_feed(t, cases, "reordered", &b2, &p2, 0, &keys);
                        decodes += 1;
                        let drop = rng.gen_range(0..parts.len());
                        let mut p3 = parts.clone();
                        p3.remove(drop);
                        let b3 = assemble_im(&bytes, &p3, &keys.pair);
                        im_feed(t, cases, "part-missing", &b3, &p3, 0, &keys);
                        decodes += 1;
                    }
                }
            }
        }
    }
    (cases, decodes)
}

// ------------------------------------------------------------------------------------------------ RotationMessage

fn rot_bytes(rng: &mut StdRng, id: u64, plen: usize, clen: usize) -> Vec<u8> {
    let mut b = id.to_be_bytes().to_vec();
    b.push(plen as u8);
    let mut k = vec![0u8; plen];
    rng.fill_bytes(&mut k);
    b.extend_from_slice(&k);
    b.push(clen as u8);
    let mut k = vec![0u8; clen];
    rng.fill_bytes(&mut k);
    b.extend_from_slice(&k);
    b
}

/// The fields of RotationMessage are private: the observable round trip is bytes -> read_from -> write_to -> bytes.
fn rot_event(t: &mut Trace, case: u64, src: &str, bytes: &[u8]) {
    let plen = bytes[8] as usize;
    let clen = bytes[9 + plen] as usize;
    let r = guarded(|| {
        RotationMessage::read_from(Cursor::new(bytes)).map_err(|e| e.to_string()).map(|m| {
            let mut out = vec![];
            m.write_to(&mut out).expect("write to a vector");
            out
        })
    });
    let ev = match r {
        Ok(Ok(out)) => {
            // structure of what the encoder wrote, read off its bytes
            let re_plen = out.get(8).map(|x| *x as i64).unwrap_or(-1);
            let re_clen = if re_plen >= 0 { out.get(9 + re_plen as usize).map(|x| *x as i64).unwrap_or(-1) } else { -1 };
            json!({"op": "rotation", "case": case, "src": src, "plen": plen, "clen": clen, "res": "ok", "note": "",
                   "re_len": out.len(), "re_plen": re_plen, "re_clen": re_clen, "content_ok": out == bytes})
        }
        Ok(Err(e)) => json!({"op": "rotation", "case": case, "src": src, "plen": plen, "clen": clen, "res": "err", "note": e,
                             "re_len": 0, "re_plen": 0, "re_clen": 0, "content_ok": false}),
        Err(m) => json!({"op": "rotation", "case": case, "src": src, "plen": plen, "clen": clen, "res": "panic", "note": m,
                         "re_len": 0, "re_plen": 0, "re_clen": 0, "content_ok": false}),
    };
    t.ev(ev);
}

/// Genuine rotation messages produced by two RotationState objects talking to each other.
fn genuine_rotation_messages(n: usize) -> Vec<Vec<u8>> {
    let mut out = MsgBuffer::new(8);
    let mut a = RotationState::new(true, &mut out);
    let mut msgs = vec![out.message().to_vec()];
    out.clear();
    let mut b = RotationState::new(false, &mut out);
    let _ = b.handle_message(&msgs[0]);
    let mut turn = 0;
    let mut guard = 0;
    while msgs.len() < n && guard < 20 * n {
        guard += 1;
        let (x, y) = if turn % 2 == 0 { (&mut b, &mut a) } else { (&mut a, &mut b) };
        x.cycle(&mut out);
        if !out.is_empty() {
            let m = out.message().to_vec();
            out.clear();
            let _ = y.handle_message(&m);
            msgs.push(m);
        }
        turn += 1;
    }
    msgs
}

fn rot_roundtrips(t: &mut Trace, thorough: bool) -> (u64, u64) {
    let mut rng = rng(1603);
    let mut cases = 0u64;
    for plen in 0..=255usize {
        for clen in [0usize, 1, 32, 255] {
            cases += 1;
            let id = if cases % 5 == 0 { u64::MAX - cases } else { rng.gen() };
            let b = rot_bytes(&mut rng, id, plen, clen);
            rot_event(t, cases, "built", &b);
        }
    }
    for _ in 0..(if thorough { 4000 } else { 200 }) {
        cases += 1;
        let (id, pl, cl) = (rng.gen(), rng.gen_range(0..=255), rng.gen_range(0..=255));
        let b = rot_bytes(&mut rng, id, pl, cl);
        rot_event(t, cases, "built", &b);
    }
    for m in genuine_rotation_messages(if thorough { 60 } else { 12 }) {
        cases += 1;
        rot_event(t, cases, "state", &m);
    }
    (cases, cases)
}

fn roundtrip(thorough: bool, path: &str) -> Value {
    let mut t = Trace::create(path);
    let (c1, d1) = ni_roundtrips(&mut t, thorough);
    let (c2, d2) = im_roundtrips(&mut t, thorough);
    let (c3, d3) = rot_roundtrips(&mut t, thorough);
    let events = t.finish();
    json!({"runs": c1 + c2 + c3, "steps": d1 + d2 + d3, "events": events,
           "nodeinfo": {"messages": c1, "decodes": d1}, "init": {"messages": c2, "decodes": d2}, "rotation": {"messages": c3, "decodes": d3}})
}

// ------------------------------------------------------------------------------------------------ totality

const SUBST: [u8; 13] = [0, 1, 2, 3, 4, 5, 6, 7, 8, 9, 0x7f, 0x80, 0xff];
const TAIL_LEN: usize = 65536;
const CLASSES: [&str; 5] = ["truncation", "substitution", "random", "structured", "stale-tail"];
const SLOW_US: u64 = 1_000_000;

static PROGRESS: AtomicU64 = AtomicU64::new(0);
static CURRENT: AtomicU64 = AtomicU64::new(0); // codec * 1_000_000_000_000 + class * 1_000_000_000 + member index

struct Fam {
    members: u64,
    ok: u64,
    err: u64,
    panics: u64,
    slow: u64,
    max_us: u64,
    first_bad: String,
}

struct Totality<'a> {
    codec: &'static str,
    codec_no: u64,
    dec: &'a dyn Fn(&[u8]) -> bool,
    fams: Vec<Fam>,
    tails: Vec<(&'static str, Vec<u8>)>,
    earlier: Vec<u8>, // a longer valid message that was in the receive buffer before
    scratch: Vec<u8>,
    flagged: u64,
}

impl<'a> Totality<'a> {
    fn new(codec: &'static str, codec_no: u64, dec: &'a dyn Fn(&[u8]) -> bool, earlier: Vec<u8>, rng: &mut StdRng) -> Self {
        let mut random = vec![0u8; TAIL_LEN];
        rng.fill_bytes(&mut random);
        let mut repeated = vec![];
        while repeated.len() < TAIL_LEN {
            repeated.extend_from_slice(&earlier);
        }
        repeated.truncate(TAIL_LEN);
        let tails = vec![("zeros", vec![0u8; TAIL_LEN]), ("ones", vec![0xffu8; TAIL_LEN]), ("random", random), ("messages", repeated)];
        let fams = CLASSES.iter().map(|_| Fam { members: 0, ok: 0, err: 0, panics: 0, slow: 0, max_us: 0, first_bad: String::new() }).collect();
        Totality { codec, codec_no, dec, fams, tails, earlier, scratch: Vec::with_capacity(TAIL_LEN + 70000), flagged: 0 }
    }

    fn one(&mut self, t: &mut Trace, class: usize, input: &[u8], tail: &str, detail: &Value) {
        let f = &mut self.fams[class];
        CURRENT.store(self.codec_no * 1_000_000_000_000 + class as u64 * 1_000_000_000 + f.members, Ordering::Relaxed);
        PROGRESS.fetch_add(1, Ordering::Relaxed);
        let dec = self.dec;
        let t0 = Instant::now();
        let r = guarded(|| dec(input));
        let mut us = t0.elapsed().as_micros() as u64;
        // a slow decode is measured again (twice) before it is believed: the machine may have been busy
        let mut again = 0;
        while us > SLOW_US && again < 2 && r.is_ok() {
            again += 1;
            let t1 = Instant::now();
            let _ = guarded(|| dec(input));
            us = us.min(t1.elapsed().as_micros() as u64);
        }
        f.members += 1;
        f.max_us = f.max_us.max(us);
        let res = match &r {
            Ok(true) => {
                f.ok += 1;
                "ok"
            }
            Ok(false) => {
                f.err += 1;
                "err"
            }
            Err(_) => {
                f.panics += 1;
                "panic"
            }
        };
        let slow = us > SLOW_US;
        if slow {
            f.slow += 1;
        }
        if r.is_err() || slow {
            let shown = &input[..input.len().min(4096)];
            if f.first_bad.is_empty() {
                f.first_bad = hex(&input[..input.len().min(256)]);
            }
            self.flagged += 1;
            if self.flagged <= 200 {
                t.ev(json!({"op": "member", "codec": self.codec, "class": CLASSES[class], "index": f.members - 1, "tail": tail,
                            "detail": detail, "res": if r.is_err() { "panic" } else { "slow" }, "us": us,
                            "msg": r.err().unwrap_or_default(), "len": input.len(), "input": hex(shown), "outcome": res}));
            }
        }
    }

    /// The member as it is, and the same bytes with each kind of stale tail behind them.
    fn member(&mut self, t: &mut Trace, class: usize, input: &[u8], detail: Value) {
        self.one(t, class, input, "", &detail);
        for i in 0..self.tails.len() + 1 {
            let mut s = std::mem::take(&mut self.scratch);
            s.clear();
            s.extend_from_slice(input);
            let name;
            if i < self.tails.len() {
                s.extend_from_slice(&self.tails[i].1);
                name = self.tails[i].0;
            } else {
                // the rest of a longer earlier message at the same offset, then zeros
                if self.earlier.len() > input.len() {
                    s.extend_from_slice(&self.earlier[input.len()..]);
                }
                s.resize(input.len() + TAIL_LEN, 0);
                name = "earlier";
            }
            self.one(t, 4, &s, name, &detail);
            self.scratch = s;
        }
    }

    fn finish(&mut self, t: &mut Trace) -> (u64, u64) {
        let mut members = 0;
        let mut panics = 0;
        for (i, f) in self.fams.iter().enumerate() {
            if f.members == 0 {
                continue;
            }
            members += f.members;
            panics += f.panics;
            t.ev(json!({"op": "family", "codec": self.codec, "class": CLASSES[i], "members": f.members, "ok": f.ok, "err": f.err,
                        "panics": f.panics, "slow": f.slow, "max_us": f.max_us, "first_bad": f.first_bad}));
        }
        (members, panics)
    }
}

fn start_watchdog() {
    std::thread::spawn(|| {
        let mut last = u64::MAX;
        let mut same = 0;
        loop {
            std::thread::sleep(std::time::Duration::from_millis(500));
            let p = PROGRESS.load(Ordering::Relaxed);
            if p == last && p != 0 {
                same += 1;
            } else {
                same = 0;
            }
            last = p;
            if same >= 40 {
                // one decode has been running for 20 s: report it instead of hanging the check
                let c = CURRENT.load(Ordering::Relaxed);
                println!(
                    "{}",
                    json!({"hang": {"codec": c / 1_000_000_000_000, "class": CLASSES[((c / 1_000_000_000) % 1000) as usize], "index": c % 1_000_000_000}})
                );
                std::process::exit(0);
            }
        }
    });
}

/// Positions of a NodeInfo encoding that hold a tag, a length or a count.
fn ni_positions(b: &[u8]) -> Vec<(usize, &'static str)> {
    let mut pos = vec![];
    let (parts, end) = walk(b, 0);
    for p in &parts {
        pos.push((p.pos, "tag"));
        pos.push((p.pos + 1, "len-hi"));
        pos.push((p.pos + 2, "len-lo"));
        let body = p.pos + 3;
        match p.tag {
            1 => {
                let mut q = body;
                while q < body + p.len {
                    pos.push((q, "peer-flags"));
                    let f = b[q];
                    q += 1 + if f & 0x80 != 0 { 16 } else { 0 } + ((f & 0x38) as usize / 8) * 18 + (f & 7) as usize * 6;
                }
            }
            2 => {
                let mut q = body;
                while q < body + p.len {
                    pos.push((q, "claim-len"));
                    q += 1 + b[q] as usize;
                    pos.push((q, "claim-prefix"));
                    q += 1;
                }
            }
            5 => pos.push((body, "addrs-flags")),
            _ => {}
        }
    }
    pos.push((end, "end"));
    pos
}

fn random_tlv(rng: &mut StdRng, maxlen: usize, tags: &[u8]) -> Vec<u8> {
    let mut b = vec![];
    let n = rng.gen_range(0..8);
    for _ in 0..n {
        let tag = if rng.gen_bool(0.85) { tags[rng.gen_range(0..tags.len())] } else { rng.gen() };
        let blen = match rng.gen_range(0..10) {
            0 => 0,
            1 => rng.gen_range(0..400),
            _ => rng.gen_range(0..40),
        };
        let claimed: usize = match rng.gen_range(0..12) {
            0 => rng.gen_range(0..65536),
            1 => blen + 1,
            2 => blen.saturating_sub(1),
            _ => blen,
        };
        b.push(tag);
        if tag != 0 || rng.gen_bool(0.3) {
            b.push((claimed >> 8) as u8);
            b.push(claimed as u8);
        }
        let mut body = vec![0u8; blen];
        rng.fill_bytes(&mut body);
        if rng.gen_bool(0.5) {
            // small count / length bytes make the inner parsers go further
            for x in body.iter_mut() {
                if rng.gen_bool(0.3) {
                    *x = [0, 1, 4, 8, 9, 16, 17, 0x80, 0x89][rng.gen_range(0..9)];
                }
            }
        }
        b.extend_from_slice(&body);
    }
    if rng.gen_bool(0.7) {
        b.push(0);
    }
    b.truncate(maxlen);
    b
}

fn total_nodeinfo(t: &mut Trace, thorough: bool) -> (u64, u64, u64) {
    let mut rng = rng(1611);
    let dec = |b: &[u8]| NodeInfo::decode(Cursor::new(b)).is_ok();
    // valid encodings, some with unknown parts
    let mut bases: Vec<Vec<u8>> = vec![];
    let shapes: Vec<NiShape> = vec![
        NiShape { peers: vec![], claims: vec![], timeout: false, own: (0, 0) },
        NiShape { peers: vec![(true, 1, 1)], claims: vec![(4, 24)], timeout: true, own: (1, 0) },
        NiShape { peers: vec![(false, 7, 7), (true, 0, 0), (true, 9, 9)], claims: vec![(16, 128), (0, 0), (6, 48)], timeout: true, own: (7, 7) },
        NiShape { peers: (0..20).map(|i| (i % 2 == 0, i % 4, i % 3)).collect(), claims: vec![(4, 32); 5], timeout: false, own: (2, 1) },
        NiShape { peers: vec![(true, 2, 0)], claims: (0..=16).map(|l| (l, 8 * l)).collect(), timeout: true, own: (0, 3) },
    ];
    for s in &shapes {
        let info = build_ni(&mut rng, s);
        let e = encode_ni(&info).expect("encode");
        let (parts, _) = wparts(&e, 0);
        bases.push(e);
        let at = rng.gen_range(0..=parts.len());
        let mut b = vec![];
        put_parts(&mut b, &insert_parts(&parts, &[(at, unknown_part(&mut rng, 5))]));
        bases.push(b);
    }
    for _ in 0..(if thorough { 40 } else { 3 }) {
        let s = NiShape {
            peers: (0..rng.gen_range(0..=20)).map(|_| (rng.gen(), rng.gen_range(0..=9), rng.gen_range(0..=9))).collect(),
            claims: (0..rng.gen_range(0..6)).map(|_| (rng.gen_range(0..=16), rng.gen())).collect(),
            timeout: rng.gen(),
            own: (rng.gen_range(0..=9), rng.gen_range(0..=9)),
        };
        bases.push(encode_ni(&build_ni(&mut rng, &s)).expect("encode"));
    }
    let earlier = bases.iter().max_by_key(|b| b.len()).unwrap().clone();
    let mut tot = Totality::new("nodeinfo", 0, &dec, earlier, &mut rng);
    for (bi, b) in bases.iter().enumerate() {
        if b.len() > 5000 {
            continue;
        }
        for n in 0..b.len() {
            tot.member(t, 0, &b[..n], json!({"base": bi, "cut": n}));
        }
        for (p, what) in ni_positions(b) {
            for v in SUBST {
                if b[p] != v {
                    let mut m = b.clone();
                    m[p] = v;
                    tot.member(t, 1, &m, json!({"base": bi, "pos": p, "what": what, "value": v}));
                }
            }
        }
    }
    // crafted: a peer list of 65535 empty entries, a claim of maximal length byte, a part longer than the message
    let mut big = vec![4u8, 0, 16];
    big.extend_from_slice(&[7u8; 16]);
    big.extend_from_slice(&[1, 0xff, 0xff]);
    big.extend(std::iter::repeat(0u8).take(65535));
    big.push(0);
    tot.one(t, 3, &big, "", &json!({"crafted": "65535 empty peer entries"}));
    tot.one(t, 3, &[2, 0, 3, 0xff, 1, 2, 0], "", &json!({"crafted": "claim length 255"}));
    tot.one(t, 3, &[9, 0xff, 0xff, 1, 2, 3], "", &json!({"crafted": "unknown part longer than the message"}));
    let nrand = if thorough { 200_000 } else { 30_000 };
    for i in 0..nrand {
        let len = if i % 50 == 0 { 2048 } else { rng.gen_range(0..=2048) };
        let mut b = vec![0u8; len];
        rng.fill_bytes(&mut b);
        tot.member(t, 2, &b, json!({"seed_index": i}));
        let s = random_tlv(&mut rng, 2048, &[0, 1, 2, 3, 4, 5, 6, 9]);
        tot.member(t, 3, &s, json!({"seed_index": i}));
    }
    let (m, p) = tot.finish(t);
    (m, p, tot.flagged)
}

/// Positions of a handshake datagram that hold a tag, a length, the stage, an algorithm id, or the signature length.
fn im_positions(b: &[u8]) -> Vec<(usize, &'static str)> {
    let mut pos = vec![];
    let (parts, end) = walk(b, 8);
    for p in &parts {
        pos.push((p.pos, "tag"));
        pos.push((p.pos + 1, "len-hi"));
        pos.push((p.pos + 2, "len-lo"));
        if p.tag == IM_STAGE {
            pos.push((p.pos + 3, "stage"));
        }
        if p.tag == IM_ALGOS {
            for i in 0..p.len / 5 {
                pos.push((p.pos + 3 + 5 * i, "algo-id"));
            }
        }
    }
    pos.push((end, "end"));
    pos.push((end + 1, "sig-len"));
    pos
}

fn total_init(t: &mut Trace, thorough: bool) -> (u64, u64, u64) {
    let mut rng = rng(1612);
    let keys = make_keys(&mut rng);
    let trusted = keys.trusted.clone();
    let dec = move |b: &[u8]| InitMsg::verif_read_from(b, &trusted).is_ok();
    let mut buf = vec![0u8; 70000];
    let mut bases: Vec<Vec<u8>> = vec![];
    for (stage, ids, unenc, keylen, paylen) in
        [(1u8, vec![1u8, 2, 3], false, 32usize, 0usize), (1, vec![3], true, 32, 0), (2, vec![2, 1], false, 32, 150), (2, vec![], true, 32, 1200), (3, vec![], false, 0, 90), (3, vec![], false, 0, 0)]
    {
        let m = gen_im(&mut rng, stage, &ids, unenc, keylen, paylen);
        let len = m.verif_write_to(&mut buf, &keys.pair).expect("write");
        let bytes = buf[..len].to_vec();
        let (parts, _) = wparts(&bytes, 8);
        let at = rng.gen_range(0..=parts.len());
        let spliced = assemble_im(&bytes, &insert_parts(&parts, &[(at, unknown_part(&mut rng, 5))]), &keys.pair);
        bases.push(bytes);
        if spliced.len() < 3000 {
            bases.push(spliced);
        }
    }
    let prefix: Vec<u8> = bases[0][..8].to_vec();
    let earlier = bases.iter().max_by_key(|b| b.len()).unwrap().clone();
    let mut tot = Totality::new("init", 1, &dec, earlier, &mut rng);
    for (bi, b) in bases.iter().enumerate() {
        for n in 0..b.len() {
            tot.member(t, 0, &b[..n], json!({"base": bi, "cut": n}));
        }
        for (p, what) in im_positions(b) {
            for v in SUBST {
                if b[p] != v {
                    let mut m = b.clone();
                    m[p] = v;
                    tot.member(t, 1, &m, json!({"base": bi, "pos": p, "what": what, "value": v}));
                }
            }
        }
    }
    // random bytes behind a genuine key selector (anything else is dropped before the part parser)
    let nrand = if thorough { 100_000 } else { 16_000 };
    for i in 0..nrand {
        let mut b = prefix.clone();
        if i % 2 == 0 {
            let len = if i % 50 == 0 { 2040 } else { rng.gen_range(0..=2040) };
            let mut r = vec![0u8; len];
            rng.fill_bytes(&mut r);
            b.extend_from_slice(&r);
        } else {
            b.extend_from_slice(&random_tlv(&mut rng, 1900, &[0, 1, 2, 3, 4, 5, 6, 9]));
            let sl: u8 = if rng.gen_bool(0.6) { 64 } else { rng.gen() };
            b.push(sl);
            let mut r = vec![0u8; rng.gen_range(0..80)];
            rng.fill_bytes(&mut r);
            b.extend_from_slice(&r);
        }
        tot.member(t, 2, &b, json!({"seed_index": i}));
    }
    // correctly signed datagrams made of arbitrary part sequences: the parser is exercised behind the signature check
    let nstruct = if thorough { 60_000 } else { 10_000 };
    for i in 0..nstruct {
        let mut parts: Vec<WPart> = vec![];
        for _ in 0..rng.gen_range(0..8) {
            let tag = if rng.gen_bool(0.9) { rng.gen_range(1..=6) } else { rng.gen_range(1..=255) };
            let natural = match tag {
                1 => 1,
                2 => 20,
                3 => 32,
                4 => 5 * rng.gen_range(0..5),
                _ => rng.gen_range(0..60),
            };
            let len = match rng.gen_range(0..8) {
                0 => natural + 1,
                1 => natural.max(1) - 1,
                2 => rng.gen_range(0..300),
                _ => natural,
            };
            let mut body = vec![0u8; len];
            rng.fill_bytes(&mut body);
            if (tag == 1 || tag == 4) && !body.is_empty() {
                for c in 0..body.len() {
                    if (tag == 1 && c == 0) || (tag == 4 && c % 5 == 0) {
                        body[c] = rng.gen_range(0..6);
                    }
                }
            }
            parts.push(WPart { tag, body });
        }
        let b = assemble_im(&prefix, &parts, &keys.pair);
        tot.member(t, 3, &b, json!({"seed_index": i, "tags": tags_of(&parts)}));
    }
    let (m, p) = tot.finish(t);
    (m, p, tot.flagged)
}

fn total_rotation(t: &mut Trace, thorough: bool) -> (u64, u64, u64) {
    let mut rng = rng(1613);
    let dec = |b: &[u8]| RotationMessage::read_from(Cursor::new(b)).is_ok();
    let mut bases: Vec<Vec<u8>> = vec![];
    for (p, c) in [(32usize, 0usize), (32, 32), (0, 0), (255, 255), (1, 200)] {
        let id = rng.gen();
        bases.push(rot_bytes(&mut rng, id, p, c));
    }
    bases.extend(genuine_rotation_messages(4));
    let earlier = bases.iter().max_by_key(|b| b.len()).unwrap().clone();
    let mut tot = Totality::new("rotation", 2, &dec, earlier, &mut rng);
    for (bi, b) in bases.iter().enumerate() {
        for n in 0..b.len() {
            tot.member(t, 0, &b[..n], json!({"base": bi, "cut": n}));
        }
        let plen = b[8] as usize;
        for (p, what) in [(8usize, "propose-len"), (9 + plen, "confirm-len")] {
            for v in 0..=255u8 {
                if b[p] != v {
                    let mut m = b.clone();
                    m[p] = v;
                    tot.member(t, 1, &m, json!({"base": bi, "pos": p, "what": what, "value": v}));
                }
            }
        }
    }
    for i in 0..(if thorough { 100_000 } else { 20_000 }) {
        let len = if i % 50 == 0 { 2048 } else { rng.gen_range(0..=2048) };
        let mut b = vec![0u8; len];
        rng.fill_bytes(&mut b);
        tot.member(t, 2, &b, json!({"seed_index": i}));
    }
    let (m, p) = tot.finish(t);
    (m, p, tot.flagged)
}

fn total(thorough: bool, path: &str) -> Value {
    start_watchdog();
    let mut t = Trace::create(path);
    let t0 = Instant::now();
    let (m1, p1, f1) = total_nodeinfo(&mut t, thorough);
    let (m2, p2, f2) = total_init(&mut t, thorough);
    let (m3, p3, f3) = total_rotation(&mut t, thorough);
    let events = t.finish();
    json!({"runs": 3, "steps": m1 + m2 + m3, "events": events, "panics": p1 + p2 + p3, "flagged": f1 + f2 + f3,
           "members": {"nodeinfo": m1, "init": m2, "rotation": m3}, "wall_ms": t0.elapsed().as_millis() as u64,
           "peer_entry_bytes": std::mem::size_of::<PeerInfo>()})
}

/// `codec decode <nodeinfo|init|rotation> <file with hex>`: one input through the real decoder (replay of a flagged member).
fn decode_one(codec: &str, path: &str) -> Value {
    let text = std::fs::read_to_string(path).expect("hex file");
    let bytes = unhex(text.trim());
    let r = match codec {
        "nodeinfo" => guarded(|| NodeInfo::decode(Cursor::new(&bytes[..])).is_ok()),
        "init" => {
            let keys = make_keys(&mut rng(1612)); // the key set of total_init
            guarded(|| InitMsg::verif_read_from(&bytes, &keys.trusted).is_ok())
        }
        "rotation" => guarded(|| RotationMessage::read_from(Cursor::new(&bytes[..])).is_ok()),
        _ => return json!({"error": "unknown codec"}),
    };
    match r {
        Ok(true) => json!({"res": "ok", "msg": "", "len": bytes.len()}),
        Ok(false) => json!({"res": "err", "msg": "", "len": bytes.len()}),
        Err(m) => json!({"res": "panic", "msg": m, "len": bytes.len()}),
    }
}

/// `codec observe`: what happens *behind* the decoders when a well-formed message carries an ECDH key of a wrong
/// length (the decoders take any length).  Not part of C16's verdict; reported as an observation.
fn observe() -> Value {
    use crate::crypto::verif_export::InitState;
    use std::sync::Arc;
    let mut rng = rng(1620);
    // rotation: a responder receives message 1 with a 31-byte proposed key
    let mut out = MsgBuffer::new(8);
    let mut b = RotationState::new(false, &mut out);
    let short = rot_bytes(&mut rng, 1, 31, 0);
    let rot = match guarded(|| b.handle_message(&short).is_ok()) {
        Ok(ok) => json!({"res": if ok { "ok" } else { "err" }, "msg": ""}),
        Err(m) => json!({"res": "panic", "msg": m}),
    };
    // handshake: a responder receives a correctly signed ping whose ECDH part has 31 bytes
    let mut seed = [0u8; 32];
    rng.fill_bytes(&mut seed);
    let pair = Arc::new(Ed25519KeyPair::from_seed_unchecked(&seed).expect("key pair"));
    let mut pk = [0u8; 32];
    pk.copy_from_slice(pair.public_key().as_ref());
    let trusted: Arc<[[u8; 32]]> = vec![pk].into();
    let algorithms = Algorithms { algorithm_speeds: smallvec::smallvec![(&AES_128_GCM, 100.0f32)], allow_unencrypted: false };
    let payload = NodeInfo { node_id: [1; 16], peers: SmallVec::new(), claims: SmallVec::new(), peer_timeout: None, addrs: SmallVec::new() };
    let mut resp: InitState<NodeInfo> = InitState::new([2; 16], payload, pair.clone(), trusted, algorithms.clone());
    let ping = gen_im(&mut rng, 1, &[1], false, 31, 0);
    let mut buf = vec![0u8; 4096];
    let len = ping.verif_write_to(&mut buf, &pair).expect("write");
    let mut m = MsgBuffer::new(8);
    m.clone_from(&buf[..len]);
    let init = match guarded(|| resp.handle_init(&mut m).map(|_| ()).map_err(|e| e.to_string())) {
        Ok(r) => json!({"res": if r.is_ok() { "ok" } else { "err" }, "msg": r.err().unwrap_or_default()}),
        Err(e) => json!({"res": "panic", "msg": e}),
    };
    json!({"rotation_short_key": rot, "ping_short_ecdh_key": init})
}
