"""Shared machinery of the vpncloud verification framework.

Everything a per-property check needs: building the harness against /repo's working tree, running TLC
(design runs, table export, trace validation), evidence files, known findings and VIOLATION reporting.

Exit codes of a check: 0 property held on everything explored, 1 violation (with a VIOLATION line),
2 tool error / time-out (never a verdict).
"""
import json
import os
import re
import subprocess
import sys
import time
import hashlib

ROOT = os.path.dirname(os.path.dirname(os.path.abspath(__file__)))
SPEC = os.path.join(ROOT, "spec")
WORK = os.path.join(ROOT, "work")
HARNESS_DIR = os.path.join(ROOT, "harness")
HARNESS = os.path.join(HARNESS_DIR, "target", "release", "vpnharness")
EVIDENCE = os.path.join(ROOT, "evidence")
REPLAYS = os.path.join(WORK, "replays")
KNOWN = os.path.join(ROOT, "known_findings.json")
JAR = "/opt/veriftools/tla/tla2tools.jar:/opt/veriftools/tla/CommunityModules-deps.jar"


class ToolError(Exception):
    pass


def log(*a):
    print(*a, file=sys.stderr, flush=True)


def workdir(pid, sub=None):
    d = os.path.join(WORK, pid if sub is None else os.path.join(pid, sub))
    os.makedirs(d, exist_ok=True)
    return d


def seed():
    try:
        return int(os.environ.get("VERIF_SEED", "1"))
    except ValueError:
        return 1


# ---------------------------------------------------------------------------------------------- harness

_built = False


def build_harness():
    """Incremental build of the harness from /repo's *current working tree* (rustc dep-info tracks every
    included file of /repo/src, so any edit there triggers a rebuild)."""
    global _built
    if _built:
        return
    env = dict(os.environ, CARGO_NET_OFFLINE="true")
    t0 = time.time()
    p = subprocess.run(["cargo", "build", "--release", "--offline", "-q"], cwd=HARNESS_DIR, env=env,
                       stdout=subprocess.PIPE, stderr=subprocess.STDOUT, text=True)
    if p.returncode != 0:
        log(p.stdout[-4000:])
        raise ToolError("harness build failed")
    log("[build] harness up to date (%.1fs)" % (time.time() - t0))
    _built = True


def harness(args, stdin=None, timeout=3600, env=None, check=True):
    build_harness()
    e = dict(os.environ)
    e["VERIF_SEED"] = str(seed())
    if env:
        e.update(env)
    p = subprocess.run([HARNESS] + [str(a) for a in args], input=stdin, stdout=subprocess.PIPE, stderr=subprocess.PIPE,
                       text=True, timeout=timeout, env=e)
    if check and p.returncode != 0:
        log(p.stdout[-2000:])
        log(p.stderr[-4000:])
        raise ToolError("harness %s exited with %d" % (args[0], p.returncode))
    return p


def harness_json(args, **kw):
    """Run the harness and parse its last stdout line as a JSON summary."""
    p = harness(args, **kw)
    lines = [l for l in p.stdout.splitlines() if l.strip()]
    if not lines:
        raise ToolError("harness %s printed nothing" % args[0])
    try:
        return json.loads(lines[-1])
    except Exception:
        log(p.stdout[-2000:])
        raise ToolError("harness %s: last line is not JSON" % args[0])


# ---------------------------------------------------------------------------------------------- TLC

def _java(extra_props=None, xmx="8g", xss="1g"):
    tmp = workdir("tmp")
    cmd = ["java", "-XX:+UseParallelGC", "-Xmx" + xmx, "-Xss" + xss, "-Djava.io.tmpdir=" + tmp]
    for p in (extra_props or []):
        cmd.append(p)
    cmd += ["-cp", JAR, "tlc2.TLC"]
    return cmd


class TlcResult:
    def __init__(self, rc, out, wall):
        self.rc = rc
        self.out = out
        self.wall = wall
        m = re.findall(r"(\d+) states generated, (\d+) distinct states found", out)
        self.generated = int(m[-1][0]) if m else 0
        self.distinct = int(m[-1][1]) if m else 0
        m = re.search(r"The depth of the complete state graph search is (\d+)", out)
        self.depth = int(m.group(1)) if m else 0
        self.finished = "Model checking completed. No error has been found." in out
        self.invariant_violated = re.findall(r"Invariant (\S+) is violated", out)
        self.property_violated = ("Temporal properties were violated" in out) or bool(
            re.findall(r"Action property (\S+) is violated", out))
        self.postcondition_failed = "violated" in out and "ostcondition" in out
        self.error = ("Error:" in out) and not self.invariant_violated and not self.property_violated


def tlc(module, cfg, pid, workers=8, timeout=1800, env=None, extra=None, xmx="8g", dfs=False, sub="tlc", keep_out=False):
    """Run TLC on SPEC/<module>.tla with SPEC/<cfg>; metadir below work/<pid>."""
    meta = workdir(pid, sub + "-" + os.path.splitext(os.path.basename(cfg))[0])
    props = []
    if dfs:
        props.append("-Dtlc2.tool.queue.IStateQueue=StateDeque")
    cmd = _java(props, xmx=xmx) + ["-workers", str(workers), "-metadir", meta, "-cleanup", "-noGenerateSpecTE",
                                    "-config", os.path.join(SPEC, cfg)]
    cmd += (extra or [])
    cmd.append(os.path.join(SPEC, module))
    e = dict(os.environ)
    if env:
        e.update({k: str(v) for k, v in env.items()})
    t0 = time.time()
    for attempt in range(3):
        try:
            p = subprocess.run(cmd, cwd=SPEC, stdout=subprocess.PIPE, stderr=subprocess.STDOUT, text=True, timeout=timeout, env=e)
        except subprocess.TimeoutExpired:
            raise ToolError("TLC timed out on %s/%s after %ds" % (module, cfg, timeout))
        if p.returncode not in (143, 137, -15, -9):
            break
        log("[tlc] %s/%s was killed by a signal (rc=%d), retrying" % (module, cfg, p.returncode))
    r = TlcResult(p.returncode, p.stdout, time.time() - t0)
    if keep_out:
        with open(os.path.join(workdir(pid), "tlc-%s.out" % os.path.splitext(os.path.basename(cfg))[0]), "w") as f:
            f.write(p.stdout)
    return r


def tlc_design(module, cfg, pid, workers=8, timeout=1800, env=None, extra=None, xmx="8g", expect_ok=True):
    """Exhaustive design-level run; returns TlcResult; raises ToolError on parse/semantic errors of the spec."""
    r = tlc(module, cfg, pid, workers=workers, timeout=timeout, env=env, extra=extra, xmx=xmx, keep_out=True)
    log("[tlc] %s/%s: %d distinct, %d generated, depth %d, %.1fs rc=%d" % (module, cfg, r.distinct, r.generated, r.depth, r.wall, r.rc))
    if expect_ok and not r.finished and not r.invariant_violated and not r.property_violated:
        log(r.out[-3000:])
        raise ToolError("TLC did not complete on %s/%s" % (module, cfg))
    return r


def tlc_lines(out, tag):
    """Extract the JSON payloads of PrintT(<<tag, ToJson(..)>>) lines: `<<"TAG", "json">>`."""
    res = []
    pat = '<<"%s", "' % tag
    for line in out.splitlines():
        if line.startswith(pat):
            body = line[len(pat):]
            if body.endswith('">>'):
                body = body[:-3]
            # TLC prints the string with \" and \\ escapes
            body = body.encode("utf-8").decode("unicode_escape") if "\\" in body else body
            res.append(json.loads(body))
    return res


class TraceVerdict:
    def __init__(self, accepted, n, matched, reason, out, states):
        self.accepted = accepted
        self.n = n                # number of events
        self.matched = matched    # events matched before rejection
        self.reason = reason
        self.out = out
        self.states = states


def tlc_trace(module, cfg, pid, tracefile, n_events, timeout=900, xmx="4g", extra_env=None, sub="trace"):
    """Trace validation: TLC replays the ndjson trace through the trace specification. The specification has a
    variable `l` (index of the next event).  Accepted iff TLC finishes without violated invariant and the
    POSTCONDITION (all events consumed) holds."""
    env = {"TRACE": tracefile}
    if extra_env:
        env.update(extra_env)
    r = tlc(module, cfg, pid, workers=1, timeout=timeout, env=env, xmx=xmx, dfs=True, sub=sub)
    out = r.out
    reason = None
    matched = None
    m = re.search(r'"REJECTED",\s*(\d+)', out)
    if m:
        matched = int(m.group(1)) - 1
        reason = "event %d cannot be explained by the specification" % int(m.group(1))
    if r.invariant_violated:
        ls = re.findall(r"/\\ l = (\d+)", out)
        matched = (int(ls[-1]) - 1) if ls else None
        reason = "invariant %s violated after event %s" % (r.invariant_violated[0], matched)
    accepted = r.finished and not reason
    if not accepted and reason is None:
        log(out[-3000:])
        raise ToolError("trace validation of %s did not produce a verdict" % tracefile)
    return TraceVerdict(accepted, n_events, matched if matched is not None else n_events, reason, out, r.distinct)


# ---------------------------------------------------------------------------------------------- ndjson helpers

def write_ndjson(path, events):
    with open(path, "w") as f:
        for e in events:
            f.write(json.dumps(e, separators=(",", ":")))
            f.write("\n")


def read_ndjson(path):
    with open(path) as f:
        return [json.loads(l) for l in f if l.strip()]


def count_lines(path):
    n = 0
    with open(path, "rb") as f:
        for _ in f:
            n += 1
    return n


# ---------------------------------------------------------------------------------------------- findings

def load_known():
    if not os.path.exists(KNOWN):
        return {"findings": [], "fixed": []}
    with open(KNOWN) as f:
        return json.load(f)


class Outcome:
    """Collects violations of one check run, matches them against known findings, prints the verdict."""

    def __init__(self, pid, tier):
        self.pid = pid
        self.tier = tier
        self.violations = []     # (signature, description, replay_obj)
        self.t0 = time.time()
        self.notes = []

    def violation(self, signature, description, replay):
        self.violations.append((signature, description, replay))

    def finish(self, level, coverage, assumptions=None):
        known = load_known()
        ksigs = {}
        for k in known.get("findings", []):
            if k["property"] == self.pid:
                ksigs[k["signature"]] = k
        unknown = []
        seen_known = {}
        for sig, desc, rep in self.violations:
            hit = None
            for ks in ksigs:
                if re.fullmatch(ks, sig):
                    hit = ks
                    break
            if hit is not None:
                seen_known.setdefault(hit, (desc, 0))
                seen_known[hit] = (seen_known[hit][0], seen_known[hit][1] + 1)
            else:
                unknown.append((sig, desc, rep))
        for ks, (desc, n) in seen_known.items():
            print("KNOWN-FINDING: property=%s %s (signature %s, %d occurrence(s) in this run)" % (self.pid, ksigs[ks]["what"], ks, n))
        os.makedirs(REPLAYS, exist_ok=True)
        os.makedirs(EVIDENCE, exist_ok=True)
        cov = dict(coverage)
        cov["known_findings_seen"] = sorted(seen_known.keys())
        ev = {
            "property_id": self.pid,
            "tier": self.tier,
            "seed": seed(),
            "level": level,
            "coverage": cov,
            "assumptions": assumptions or [],
            "wall_s": round(time.time() - self.t0, 2),
            "violations": len(unknown),
        }
        with open(os.path.join(EVIDENCE, self.pid + ".json"), "w") as f:
            json.dump(ev, f, indent=1)
        if unknown:
            seen = set()
            for i, (sig, desc, rep) in enumerate(unknown):
                if sig in seen:
                    continue
                seen.add(sig)
                h = hashlib.sha1(sig.encode()).hexdigest()[:10]
                path = os.path.join(REPLAYS, "%s-%s.json" % (self.pid, h))
                with open(path, "w") as f:
                    json.dump({"property": self.pid, "signature": sig, "description": desc, "replay": rep}, f, indent=1)
                print("VIOLATION property=%s replay=%s" % (self.pid, path))
                log("  signature: %s\n  %s" % (sig, desc))
                if len(seen) >= 10:
                    break
            return 1
        print("OK property=%s tier=%s wall=%.1fs" % (self.pid, self.tier, time.time() - self.t0))
        return 0


class ReplayOutcome(Outcome):
    """`bin/check <ID> --replay <file>` for checks without a replay of their own: the quick tier is run again on the
    current tree and the verdict is whether the recorded signature shows up again (no evidence file is written)."""

    def __init__(self, pid, signature, path):
        Outcome.__init__(self, pid, "quick")
        self.signature = signature
        self.path = path

    def finish(self, level, coverage, assumptions=None):
        sigs = {v[0] for v in self.violations}
        if self.signature in sigs:
            print("VIOLATION property=%s replay=%s" % (self.pid, self.path))
            log("  signature %s reproduced on the current tree" % self.signature)
            return 1
        print("OK property=%s replay: signature %s not reproduced on the current tree (%d other signature(s))" % (self.pid, self.signature, len(sigs)))
        return 0


def selftest_fail(pid, what):
    """A check whose binding self-test did not reject a corrupted trace is a tool error, not a verdict."""
    raise ToolError("%s: self-test failed: %s" % (pid, what))


# ---------------------------------------------------------------------------------------------- schedules

def cover_schedules(edges, maxlen=40, label=lambda a: a, sort_lists=False):
    """From exported transitions [{s, a, t}] build schedules (lists of action labels) from the initial state that
    together traverse every transition at least once: BFS tree path to the source of an uncovered transition, then a
    greedy walk over uncovered transitions."""
    import collections

    def canon(x):
        if isinstance(x, list):
            return sorted((canon(i) for i in x), key=lambda v: json.dumps(v, sort_keys=True)) if sort_lists else [canon(i) for i in x]
        if isinstance(x, dict):
            return {k: canon(v) for k, v in x.items()}
        return x

    def key(st):
        return st if isinstance(st, str) else json.dumps(canon(st), sort_keys=True)

    adj = collections.defaultdict(list)
    for e in edges:
        adj[key(e["s"])].append((e["a"], key(e["t"])))
    if not edges:
        return []
    init = key(edges[0]["s"])
    parent = {init: None}
    order = [init]
    q = collections.deque([init])
    while q:
        u = q.popleft()
        for a, v in adj[u]:
            if v not in parent:
                parent[v] = (u, a)
                q.append(v)
                order.append(v)

    def path(u):
        p = []
        while parent[u] is not None:
            u, a = parent[u]
            p.append(a)
        return p[::-1]

    covered = set()
    scheds = []
    for u in order:
        for i in range(len(adj[u])):
            if (u, i) in covered:
                continue
            p = path(u)
            cur, j = u, i
            while True:
                covered.add((cur, j))
                a2, v2 = adj[cur][j]
                p.append(a2)
                cur = v2
                nxt = [k for k in range(len(adj[cur])) if (cur, k) not in covered]
                if not nxt or len(p) >= maxlen:
                    break
                j = nxt[0]
            scheds.append([label(a) for a in p])
    return scheds


def corrupt_trace(src, dst, pick, mutate):
    """Copy an ndjson trace, applying `mutate` to the first event for which `pick` holds (binding self-test).
    Returns the 1-based line number of the corrupted event or None."""
    hit = None
    with open(src) as f, open(dst, "w") as g:
        for i, line in enumerate(f, 1):
            if hit is None:
                e = json.loads(line)
                if pick(e):
                    mutate(e)
                    hit = i
                    line = json.dumps(e, separators=(",", ":")) + "\n"
            g.write(line)
    return hit


def binding_selftest(out, pid, module, cfg, src_trace, n_events, pick, mutate, what, xmx="4g"):
    """Demonstrates that the trace specification is bound to the recorded observations: one recorded field of an
    accepted trace is corrupted and TLC must reject the copy at exactly that line.  Skipped when the run already
    found violations (the trace is then not an accepted one).  Returns a description for the evidence file."""
    if out.violations:
        return "skipped (violations found)"
    dst = os.path.join(workdir(pid), "trace_selftest.ndjson")
    hit = corrupt_trace(src_trace, dst, pick, mutate)
    if hit is None:
        selftest_fail(pid, "no event suitable for corruption in %s (vacuous trace?)" % src_trace)
    v = tlc_trace(module, cfg, pid, dst, n_events, sub="selftest", xmx=xmx)
    if v.accepted or v.matched != hit - 1:
        selftest_fail(pid, "corrupted trace (line %d) was not rejected at that line (matched %s)" % (hit, v.matched))
    return "%s at trace line %d rejected by TLC" % (what, hit)
