"""C03 - replay window: a captured datagram dies within two housekeeping ticks.

Design level: NonceWindow.tla (WindowOK, NewestAccepted, ClosedStaysClosed) exhaustively over all interleavings of
{seal, deliver any earlier datagram again (intact / tampered), tick, rotate}.
Spec -> impl: every transition of that state graph is executed on real CryptoCore pairs (three ciphers).
Impl -> spec: the recorded traces (and seeded random histories over all four slots) are validated by TLC against
Trace_NonceWindow (the accept/reject decision of every delivery must equal the history rule).
Node level: 2-3 whole mock-backed nodes exchange frames; every sealed datagram of every direction is a seal event, the
housekeeping round of the receiving node the tick, every arrival (first delivery, delayed, re-injected k = 0..5 rounds
later from its original source) a deliver event with the decision observed at the node's dispatch; one trace per
direction, judged by the same Trace_NonceWindow."""
import os
import vplib as V

PID = "C03"


def run(tier, out):
    wd = V.workdir(PID)
    quick = tier == "quick"
    V.build_harness()
    # (A) design
    env = None
    cfg = "MC_NonceWindow.cfg" if quick else "MC_NonceWindow_thorough.cfg"
    d = V.tlc_design("MC_NonceWindow.tla", cfg, PID, workers=8 if quick else 12, timeout=3000)
    if d.invariant_violated or d.property_violated:
        out.violation("design|" + ",".join(d.invariant_violated or ["action-property"]),
                      "NonceWindow.tla violates its own property (specification bug or design defect)", {"tlc": d.out[-3000:]})
    edges = V.tlc_lines(d.out, "EDGE")
    scheds = V.cover_schedules(edges, maxlen=30)
    sp = os.path.join(wd, "sched.ndjson")
    V.write_ndjson(sp, scheds)
    # (B) spec -> impl, recorded as trace
    tp = os.path.join(wd, "trace_sched.ndjson")
    s1 = V.harness_json(["window", "sched", sp, tp])
    # (C) random histories on the real code
    rp = os.path.join(wd, "trace_random.ndjson")
    nrand, rlen = (12, 400) if quick else (150, 400)
    s2 = V.harness_json(["window", "random", nrand, rlen, rp])
    # (D) session level: real PeerCrypto pairs driven by PeerCrypto::every_second (incl. key rotation), every data
    #     datagram replayed k = 0..5 housekeeping rounds after its first delivery
    xp = os.path.join(wd, "trace_session.ndjson")
    nsess, secs = (6, 400) if quick else (60, 900)
    s3 = V.harness_json(["window", "session", nsess, secs, xp])
    # (E) node level: whole nodes (GenericCloud::housekeep -> crypto_housekeep -> PeerCrypto::every_second for every peer),
    #     every sealed datagram of every direction, replays 0..5 rounds after the first delivery, delayed datagrams
    np_ = os.path.join(wd, "trace_node.ndjson")
    s4 = V.harness_json(["node", "c03", tier, np_], timeout=7200)
    if s4["rejected"] == 0 or s4["replays"] == 0:
        raise V.ToolError("C03 node level: no replay was ever rejected (vacuous run)")
    validated = 0
    samples = []
    for name, path, summ in (("schedules", tp, s1), ("random", rp, s2), ("session", xp, s3), ("node", np_, s4)):
        v = V.tlc_trace("Trace_NonceWindow.tla", "Trace_NonceWindow.cfg", PID, path, summ["events"], sub="trace-" + name)
        if v.accepted:
            validated += summ["runs"]
        else:
            evs = V.read_ndjson(path)
            bad = evs[v.matched] if v.matched < len(evs) else None
            start = max(i for i in range(v.matched + 1) if evs[i]["op"] == "reset")
            sig = "window|%s|%s" % (bad.get("op") if bad else "?", "acc=%s" % bad.get("acc") if bad else "")
            out.violation(sig, "real CryptoCore deviates from NonceWindow.tla: %s; event %s" % (v.reason, bad),
                          {"driver": name, "trace_run": evs[start:v.matched + 1]})
    st_desc = V.binding_selftest(out, PID, "Trace_NonceWindow.tla", "Trace_NonceWindow.cfg", tp, s1["events"],
                                 lambda e: e["op"] == "deliver" and e["acc"] is False,
                                 lambda e: e.__setitem__("acc", True), "inverted accept flag")
    evs = V.read_ndjson(tp)[:12]
    cov = {
        "states": d.distinct, "transitions": d.generated, "depth": d.depth,
        "traces_validated_against_impl": validated,
        "samples": [{"schedule": scheds[len(scheds) // 2]}, {"trace_excerpt": evs}],
        "evaluations": s1["steps"] + s2["steps"] + s3["steps"] + s4["steps"],
        "node_level": {"runs": s4["runs"], "sealed_datagrams": s4["seals"], "deliveries": s4["delivers"], "rejected": s4["rejected"], "replays_injected": s4["replays"]},
        "distinct_nontrivial": len(edges),
        "rule": "every transition of the exhaustive TLC graph of NonceWindow (bounds in %s) executed on real CryptoCore pairs for 3 ciphers; "
                "%d seeded random histories of length %d over four slots; %d sessions of %d s on real PeerCrypto pairs with rotation and replays 0..5 rounds later; "
                "%d runs of 2-3 whole nodes (%d deliveries incl. %d re-injections 0..5 housekeeping rounds later and delayed datagrams, judged per direction); "
                "distinct = exported transitions" % (cfg, nrand, rlen, nsess, secs, s4["runs"], s4["delivers"], s4["replays"]),
        "schedules": len(scheds), "exported_transitions": len(edges),
        "self_test": st_desc,
        "checker_cmd": "tlc MC_NonceWindow / Trace_NonceWindow",
    }
    return out.finish("model_checking", cov, assumptions=[
        "AEAD (ring) is treated as perfect: a datagram sealed under another key generation never opens",
        "object level: ticks are CryptoCore::every_second calls; node level: a tick is the housekeeping round of the receiving node, runs stay below the first key rotation (rotation is covered at session level)"])
