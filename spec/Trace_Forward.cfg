SPECIFICATION TraceSpec
CONSTANTS Nodes <- TNodes
          Claim <- TClaim
          Mode <- TMode
          ST = 10
INVARIANT OnlySwitchLearns
INVARIANT OneHopPerAddr
POSTCONDITION Accepted
CHECK_DEADLOCK FALSE
