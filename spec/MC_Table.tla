---------------------------- MODULE MC_Table ----------------------------
(* TLC-only definitions for the exhaustive runs of Table: alphabets, the admissible choices that are explored, the  *)
(* view (time-translation invariant), labelled transitions for export.                                              *)
(*                                                                                                                  *)
(* Explored choices per step: boundary entries all kept / all dropped; an announcement forgets nothing more than it  *)
(* must / every cached entry of the announcing peer; a lookup reuses / re-derives a forgettable decision; ties any.   *)
(* `act.impl` marks the transitions in which the choice is the one table.rs makes (sweep keeps `exp >= now`, an       *)
(* announcement that removed something clears the peer's cache entries, lookups always reuse): only those are          *)
(* exported for replay on the real table - the others are admissible behaviours the code does not show, and the       *)
(* property formulas must hold along them as well.                                                                    *)
EXTENDS Table, TLC, Json
CONSTANTS MaxDepth, Ops, Deltas, ListMode
VARIABLES act,     \* was the step's choice the one table.rs makes?
          steps    \* number of steps so far (bounds the run: all operation sequences up to MaxDepth)
mcvars == <<vars, act, steps>>

R1 == <<0, 0>>   \* everything
R2 == <<0, 1>>   \* 0..7
R3 == <<0, 2>>   \* 0..3
R4 == <<6, 2>>   \* 4..7, written with host bits set
R5 == <<0, 4>>   \* {0}
R6 == <<5, 4>>   \* {5}
MCRanges == {R1, R2, R3, R4, R5, R6}
RangeSeq == <<R1, R2, R3, R4, R5, R6>>
PeerSeq == SelectSeq(<<0, 1, 2>>, LAMBDA p : p \in Peers)
AddrSeq == <<0, 5, 9>>
MCAddrs == {0, 5, 9}

\* C11: nested / overlapping / tied announcements; grow, shrink, reorder
ListsC11 == {<< >>, <<R1>>, <<R3>>, <<R2, R3>>, <<R3, R2>>, <<R4, R6>>, <<R5, R1>>}
\* C13: peers connect (empty announcement), one of them may claim everything (fallback when a learned address expires);
\* the run is about learn / lookup / time / disconnect
\* C12: one peer announces every subset of a 4-claim universe in every order, and lists with duplicate entries;
\* a second peer with a small alphabet shows that nobody else's claims are touched
U4 == {R2, R3, R4, R6}
Perms == {<< >>} \cup {<<a>> : a \in U4}
         \cup {<<a, b>> : a \in U4, b \in U4}
         \cup {s \in {<<a, b, c>> : a \in U4, b \in U4, c \in U4} : s[1] = s[3] \/ Cardinality({s[1], s[2], s[3]}) = 3}
         \cup {s \in {<<a, b, c, d>> : a \in U4, b \in U4, c \in U4, d \in U4} : Cardinality({s[1], s[2], s[3], s[4]}) = 4}
\* quick tier of C11: the third peer only withdraws or claims everything (ties with <<R1>> of the others)
ListsC11q(p) == IF p = 2 THEN {<< >>, <<R1>>} ELSE {<< >>, <<R1>>, <<R2, R3>>, <<R3, R2>>, <<R4, R6>>}
ListsOf(p) == IF ListMode = "C11" THEN ListsC11
              ELSE IF ListMode = "C11q" THEN ListsC11q(p)
              ELSE IF ListMode = "C13" THEN (IF p = 0 THEN {<< >>, <<R1>>} ELSE {<< >>})
              ELSE IF p = 0 THEN Perms ELSE IF p = 1 THEN {<< >>, <<R3, R2>>} ELSE {}

KCof(keep) == IF keep THEN {<<p, r>> : p \in Peers, r \in MCRanges} ELSE {}
KAof(keep) == IF keep THEN Addrs ELSE {}

Gone(p, L) == RangesOf(claims, p) \ ListSet(L)
NotOf(p) == {a \in Addrs : cache[a] = None \/ cache[a].peer # p}

\* is there anything at the boundary after the method's own effect?  (only then the second choice differs)
BoundaryNow(t) == \/ \E i \in 1..Len(claims) : claims[i].exp = t
                  \/ \E a \in Addrs : cache[a] # None /\ cache[a].exp = t

\* time-translation invariant view: only distances to `now` matter; labels are not part of the state
Cap(x, lo) == IF x < lo THEN lo ELSE x
VClaims == [i \in 1..Len(claims) |-> <<claims[i].peer, claims[i].r, claims[i].exp - now>>]
VCache == [i \in 1..Len(AddrSeq) |->
             LET c == cache[AddrSeq[i]] IN
             IF c = None THEN << >>
             ELSE <<c.peer, c.exp - now, c.src.kind, c.src.r, Cap(c.src.cexp - now, 0 - 1), c.src.t0 - now>>]
VUp == [i \in 1..Len(PeerSeq) |-> PeerSeq[i] \in up]
VAnn == [i \in 1..Len(PeerSeq) |->
           LET x == lastAnn[PeerSeq[i]] IN
           IF x = None THEN << >>
           ELSE <<[j \in 1..Len(RangeSeq) |-> RangeSeq[j] \in x.set], Cap(x.t - now, 0 - (CT + 1))>>]
VLearnt == [i \in 1..Len(AddrSeq) |->
              LET x == learnt[AddrSeq[i]] IN IF x = None THEN << >> ELSE <<x.peer, Cap(x.t - now, 0 - (ST + 1))>>]
View == <<VClaims, VCache, VUp, VAnn, VLearnt, steps>>

\* offer the second choice only where it can differ
KeepChoices(t) == IF BoundaryNow(t) THEN BOOLEAN ELSE {TRUE}
HasCache(p) == \E a \in Addrs : cache[a] # None /\ cache[a].peer = p

MCInit == Init /\ act = [impl |-> TRUE] /\ steps = 0 /\ PrintT(<<"INIT", ToJson([s |-> ToString(View)])>>)

MCStep ==
  \/ \E p \in Peers : \E L \in ListsOf(p) : \E keep \in KeepChoices(now) :
       \E all \in (IF HasCache(p) THEN BOOLEAN ELSE {Gone(p, L) # {}}) :
        /\ Announce(p, L, KCof(keep), KAof(keep), IF all THEN NotOf(p) ELSE Addrs)
        /\ act' = [impl |-> keep /\ (all <=> Gone(p, L) # {})]
  \/ \E p \in Peers : \E keep \in KeepChoices(now) :
        /\ "disconnect" \in Ops /\ p \in up
        /\ Disconnect(p, KCof(keep), KAof(keep), Addrs)
        /\ act' = [impl |-> keep]
  \/ \E a \in Addrs, p \in Peers :
        /\ "learn" \in Ops
        /\ Learn(a, p, KCof(TRUE), KAof(TRUE), Addrs)
        /\ act' = [impl |-> TRUE]
  \/ \E a \in Addrs : \E c \in LookupChoices(a) :
        /\ "lookup" \in Ops
        /\ Lookup(a, c, KCof(TRUE), KAof(TRUE), Addrs)
        /\ act' = [impl |-> (cache[a] # None) => c = Reuse]
  \/ \E d \in Deltas : \E keep \in KeepChoices(now + d) :
        /\ Advance(d, KCof(keep), KAof(keep), Addrs)
        /\ act' = [impl |-> keep]
MCNext == steps < MaxDepth /\ steps' = steps + 1 /\ MCStep
MCSpec == MCInit /\ [][MCNext]_mcvars


\* state identity for the schedule generator: tuples and strings only
Sid(v) == ToString(v)
Emit == IF act'.impl
        THEN PrintT(<<"EDGE", ToJson([s |-> Sid(View), a |-> last', t |-> Sid(View')])>>)
        ELSE TRUE
=============================================================================
