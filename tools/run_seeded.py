#!/usr/bin/env python3
"""Applies every seeded change under seeded/<name>/patch.diff to /repo in turn, runs the check of the property it breaks
(plus any extra checks given in meta.json "also"), records whether a VIOLATION was reported, and undoes the change.
Writes seeded/RESULTS.md.  /repo must be clean before and is clean afterwards.  Usage: tools/run_seeded.py [name ...] [--tier quick|thorough] [--all-checks]"""
import json, os, subprocess, sys, time
ROOT = os.path.dirname(os.path.dirname(os.path.abspath(__file__)))
SEEDED = os.path.join(ROOT, "seeded")


def sh(cmd, **kw):
    return subprocess.run(cmd, shell=True, stdout=subprocess.PIPE, stderr=subprocess.STDOUT, text=True, **kw)


def main():
    args = [a for a in sys.argv[1:] if not a.startswith("--")]
    tier = "quick"
    if "--tier" in sys.argv:
        tier = sys.argv[sys.argv.index("--tier") + 1]
        args = [a for a in args if a != tier]
    allchecks = "--all-checks" in sys.argv
    names = args or sorted(d for d in os.listdir(SEEDED) if os.path.isdir(os.path.join(SEEDED, d)))
    if sh("git -C /repo status --porcelain").stdout.strip():
        print("/repo is not clean")
        return 2
    manifest = json.load(open(os.path.join(ROOT, "MANIFEST.json")))
    claimed = [c["property_id"] for c in manifest["checks"]]
    rows = []
    for name in names:
        d = os.path.join(SEEDED, name)
        meta = json.load(open(os.path.join(d, "meta.json")))
        prop = meta["property"]
        checks = claimed if allchecks else [prop] + [c for c in meta.get("also", []) if c != prop]
        r = sh("git -C /repo apply %s" % os.path.join(d, "patch.diff"))
        if r.returncode != 0:
            rows.append((name, prop, "patch does not apply", "", ""))
            print(name, "patch does not apply:", r.stdout[-300:])
            continue
        try:
            caught_by, details = [], []
            for c in checks:
                t0 = time.time()
                p = sh("bin/check %s --tier %s" % (c, tier), cwd=ROOT)
                sigs = [l.strip() for l in p.stdout.splitlines() if l.strip().startswith("signature:")]
                viol = [l for l in p.stdout.splitlines() if l.startswith("VIOLATION")]
                status = "VIOLATION" if p.returncode == 1 and viol else ("tool-error" if p.returncode == 2 else "ok")
                if status == "VIOLATION":
                    caught_by.append(c)
                details.append("%s: %s %s (%.0fs)" % (c, status, "; ".join(s.replace("signature: ", "") for s in sigs[:3]), time.time() - t0))
                print(name, details[-1], flush=True)
            rows.append((name, prop, "caught by " + ", ".join(caught_by) if caught_by else "MISSED", meta.get("summary", ""), " | ".join(details)))
        finally:
            sh("git -C /repo checkout -- .")
    with open(os.path.join(SEEDED, "RESULTS.md"), "a" if args else "w") as f:
        if not args:
            f.write("# Seeded changes and the checks that catch them (tier %s)\n\n| seeded change | property | result | what the change does | check output |\n|---|---|---|---|---|\n" % tier)
        for row in rows:
            f.write("| %s | %s | %s | %s | %s |\n" % tuple(str(x).replace("|", "\\|") if i == 4 else x for i, x in enumerate(row)))
    return 0


if __name__ == "__main__":
    sys.exit(main())
