SPECIFICATION TraceSpec
CONSTANTS MaxDecodeUs = 1000000
POSTCONDITION Accepted
CHECK_DEADLOCK FALSE
