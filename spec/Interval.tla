------------------------------ MODULE Interval ------------------------------
(***************************************************************************)
(* C15: the announcement interval as a function of the own settings and    *)
(* the timeouts advertised by the current peers.                           *)
(* Code: src/cloud.rs GenericCloud::housekeep (interval), GenericCloud::new*)
(* (update_freq), src/config.rs Config::get_keepalive.                     *)
(***************************************************************************)
EXTENDS Naturals, FiniteSets

Min2(a, b) == IF a < b THEN a ELSE b
Max2(a, b) == IF a > b THEN a ELSE b
SatSub(a, b) == IF a > b THEN a - b ELSE 0
MinOf(S) == CHOOSE m \in S : \A x \in S : m <= x
DEFAULT_PEER_TIMEOUT == 300

\* the property: whenever a node schedules its next announcement, the delay d is at most one second or strictly
\* shorter than the smallest timeout advertised by its current peers (no constraint while it has no peers)
IntervalOK(d, adv) == adv = {} \/ d <= 1 \/ d < MinOf(adv)

\* the design: half the smallest advertised timeout minus a minute, at least one second, at most the own keepalive;
\* the own keepalive defaults to the same expression over the own timeout.  All subtractions saturate.
Keepalive(ownTimeout, ownKa) == IF ownKa >= 0 THEN ownKa ELSE Max2(SatSub(ownTimeout \div 2, 60), 1)
Design(ownTimeout, ownKa, adv) ==
  LET m == IF adv = {} THEN DEFAULT_PEER_TIMEOUT ELSE MinOf(adv) IN
  Min2(Keepalive(ownTimeout, ownKa) % 65536, Max2(SatSub(m \div 2, 60), 1))

\* with that interval a healthy peer is refreshed before it expires: the gap between two announcements is d, the peer
\* forgets us when more than its timeout passes without one
NeverExpires(d, t) == d <= t
=============================================================================
